"""C12 - matrix_eigenvectors / _compute_orthogonal_iterations vs the Coq model Eigenvectors.matrix_eigenvectors.

Tie (decided inside coqc): the real routine runs with torch.linalg.eigh, torch.linalg.qr and Tensor.argsort wrapped
so that every call's input and answer is RECORDED; the Gallina model (binary64 instance) gets A, the estimate, the
config and the recorded answers and must reproduce the returned tensor (shape, dtype tag, entries at 1e-9), the
exception class, the list of matrices handed to qr / eigh (1e-9) and the iteration count.
Measurement (NOT a proof, labelled as such in the evidence): residuals of the real LAPACK-backed paths in float32
and float64 against fixed budgets.
"""
from __future__ import annotations

import hashlib
import logging
import math
from unittest import mock

from harness import gen_targets
from harness import common
from harness.common import Check, coq_bool, coq_float

META = {
    "property_id": "C12",
    "design_ref": "DESIGN.md §4 C12",
    "technique": "Coq proof over the reals on a scalar-polymorphic Gallina model with eigh/qr/argsort as contract-carrying oracles (Section hypotheses, instantiated by concrete oracles in Examples) + oracle-in-the-loop correspondence evaluated by vm_compute in binary64 + residual measurement of the real LAPACK paths",
    "level_text": "PARTIAL (P). Proved in Coq, for every size, matrix, estimate, max_iterations and tolerance, on the Gallina model of matrix_eigenvectors / matrix_eigenvalue_decomposition / _compute_orthogonal_iterations over the reals, for ANY oracles eigh, qr, argsort meeting their contracts (eigh: Q^T Q = I, A = Q diag(L) Q^T, L ascending; qr: Q^T Q = I, M = Q R with R upper triangular, no sign convention; argsort: a permutation sorting ascending): the dispatch in the code's order (one-element tensor -> ones of the same shape; not 2-D / not square -> ValueError; is_diagonal -> identity; eigendecomposition config -> the oracle's Q, orthonormal, Q^T A Q = diag(L), ascending; its float64 retry protocol; QR config with all-zero estimate = the eigendecomposition path; missing estimate -> AssertionError; unknown config -> NotImplementedError) [eigvec_dispatch]; on the QR path the result is the k-th orthogonal-iteration iterate with columns permuted by the argsort of its Rayleigh quotients, k qr calls and no eigh call [qr_iter_is_permuted_iterate], 1 <= k <= max_iterations (0 if max_iterations <= 0), the loop stops at the first iteration whose relative Frobenius change is <= tolerance and k is the unique count satisfying that rule [qr_loop_bounds], the result is a column permutation of an orthonormal matrix hence orthonormal [qr_iter_orthonormal], its columns are in ascending Rayleigh quotient [qr_sorted_by_rayleigh], and an exact orthonormal eigenbasis with non-zero, strictly ascending eigenvalues is returned up to column signs for every max_iterations and tolerance [qr_fixes_eigenbasis, fully proved: upper-triangular Cholesky-type uniqueness, no _partial]; the executable stable insertion sort meets the argsort contract; the contracts are jointly satisfiable (concrete 2x2 oracles, three concrete runs); certified checker C12_checkb with soundness over the reals. NOT proved, only MEASURED on every run (coverage.measurement, labelled as measurement): that torch.linalg.eigh / qr meet their contracts in float32/float64 (n <= 64: |Q^T Q - I| <= 50 n u, |offdiag Q^T A Q| <= 20 n u |A|, order <= 20 n u |A|) and that the QR method keeps an exact eigenbasis up to signs within 12 n u (cond^iterations + |A|/gap) - note the cond^iterations: in floating point the ascending order the routine itself returns is the repelling fixed point of orthogonal iteration, rounding errors grow by cond(A) per iteration (see level_note). The model is tied to /repo by ~1500 (quick) / ~7300 (thorough) recorded runs per seed: returned tensor (1e-9), exception class, every matrix handed to qr/eigh (1e-9), iteration count, argsort answer, inputs left unmodified, all compared inside coqc; coverage.quantifier_audit counts the generated cases per input class the property names or allows (sizes 0..64, float64/32/16/bfloat16 on every dispatch path, structured matrices and estimates, max_iterations -1..50, tolerances incl. inf/NaN/negative, memory layouts, call forms, repeated calls, injected and platform oracle failures), coverage.not_exercised the classes left out and why.",
    "level_note": "Trusted: Coq kernel + vm_compute; stdlib real-number axioms (sig_forall_dec, sig_not_dec, functional_extensionality_dep, classic); the hand-written model, exercised only on the generated cases (sizes 0..10 in the tie; value-level tie in binary64, float32/bfloat16 pairings at the level of dtype tags, control flow and exceptions with loose value tolerance); the recording wrappers around torch.linalg.eigh/qr and Tensor.argsort; the estimate is assumed to have A's shape; the offload device is not modelled. Numerical observation (not a model/code disagreement; reproduced in float32 with cond 1e3 and the DEFAULT tolerance 1e-5: max_iterations=3 turns the exact eigenbasis of a 2x2 matrix by 0.09 rad): started at an exact eigenbasis in ascending order the float routine amplifies rounding by cond(A)^iterations before the iteration re-converges; with tolerance = +inf or NaN the code makes no iteration at all (`inf > tolerance` is false) and the model mirrors that (keep_going) - the theorems are over real, hence finite, tolerances; the measured clause is therefore normalised by cond^iterations and `measurement.informational` records the cond^1-normalised growth.",
    "ready": True,
}

DT = {"f64": "F64", "f32": "F32", "bf16": "BF16", "f16": "F16"}
TOL = {"f64": 1e-9, "f32": 1e-4, "bf16": 5e-2, "f16": 2e-2}


def _torch():
    import torch
    return torch


def tdtype(tag):
    torch = _torch()
    return {"f64": torch.float64, "f32": torch.float32, "bf16": torch.bfloat16, "f16": torch.float16}[tag]


def tag_of(dtype) -> str:
    torch = _torch()
    return {torch.float64: "f64", torch.float32: "f32", torch.bfloat16: "bf16", torch.float16: "f16"}.get(dtype, "other")


# ---------------------------------------------------------------------------------------------
# case generation


class Gen:
    def __init__(self, ck: Check):
        torch = _torch()
        self.ck = ck
        self.g = torch.Generator().manual_seed(ck.rng.getrandbits(62))

    def randn(self, *sh):
        torch = _torch()
        return torch.randn(*sh, dtype=torch.float64, generator=self.g)

    def orth(self, n):
        torch = _torch()
        if n == 0:
            return torch.zeros(0, 0, dtype=torch.float64)
        q, r = torch.linalg.qr(self.randn(n, n))
        return q * torch.sign(torch.diagonal(r)).unsqueeze(0)

    def spectrum(self, kind, n):
        rng = self.ck.rng
        if kind == "distinct":
            base = sorted(rng.sample(range(1, 4 * n + 4), n))
            return [0.5 * b for b in base]
        if kind == "distinct_log":
            return sorted(10.0 ** rng.uniform(-3, 3) for _ in range(n))
        if kind == "repeated":
            vals = [float(rng.randint(1, 3)) for _ in range(n)]
            return sorted(vals)
        if kind == "rankdef":
            k = rng.randint(0, max(0, n - 1))
            return sorted([0.0] * (n - k) + [float(rng.randint(1, 9)) for _ in range(k)])
        raise KeyError(kind)

    def matrix(self, kind, n):
        """returns (A float64, eigenbasis Q0 or None, eigenvalues or None)"""
        torch = _torch()
        rng = self.ck.rng
        if kind == "zero":
            return torch.zeros(n, n, dtype=torch.float64), torch.eye(n, dtype=torch.float64), [0.0] * n
        if kind == "identity":
            c = float(rng.choice((1, 2, 0.5)))
            return c * torch.eye(n, dtype=torch.float64), torch.eye(n, dtype=torch.float64), [c] * n
        if kind == "diag":
            d = sorted(float(rng.randint(0, 9)) for _ in range(n))
            rng.shuffle(d)
            return torch.diag(torch.tensor(d, dtype=torch.float64)).reshape(n, n), None, None
        if kind == "gram":      # small dyadic entries: B B^T exact in binary64, possibly rank deficient
            m = rng.randint(1, max(1, n))
            B = torch.tensor([[rng.randint(-4, 4) / 2.0 for _ in range(m)] for _ in range(n)], dtype=torch.float64).reshape(n, m)
            return B @ B.T, None, None
        # ---- structured matrices (quantifier audit): no eigenbasis supplied, `exact` estimates come from eigh
        if kind == "rank1_pm":      # a a^T with a in {+c, -c}^n: one eigenvalue n c^2, the rest exactly 0
            c = float(rng.choice((0.5, 1.0, 2.0)))
            a = torch.tensor([rng.choice((-c, c)) for _ in range(n)], dtype=torch.float64)
            return torch.outer(a, a).reshape(n, n), None, None
        if kind == "equicorr":      # (1 - r) I + r 1 1^T: eigenvalue 1 - r repeated n - 1 times
            r = float(rng.choice((0.25, 0.5, 0.75)))
            return ((1 - r) * torch.eye(n, dtype=torch.float64) + r * torch.ones(n, n, dtype=torch.float64)), None, None
        if kind == "dead_coord":    # a coordinate that never received a gradient: zero row and column
            A, _, _ = self.matrix("distinct", n)
            k = rng.randrange(n)
            A = A.clone()
            A[k, :] = 0.0
            A[:, k] = 0.0
            return A, None, None
        if kind in ("indefinite", "neg_def"):
            Ls = sorted(float(rng.randint(-9, 9 if kind == "indefinite" else -1)) for _ in range(n))
            Q0 = self.orth(n)
            A = (Q0 * torch.tensor(Ls, dtype=torch.float64).unsqueeze(0)) @ Q0.T
            return (A + A.T) / 2, None, None
        if kind in ("tiny", "huge", "tiny30"):
            A, Q0, L = self.matrix("distinct", n)
            c = {"tiny": 2.0 ** -17, "huge": 2.0 ** 17, "tiny30": 2.0 ** -100}[kind]     # powers of two: exact scaling
            return A * c, Q0, [x * c for x in L]
        L = self.spectrum(kind, n)
        Q0 = self.orth(n)
        A = (Q0 * torch.tensor(L, dtype=torch.float64).unsqueeze(0)) @ Q0.T
        A = (A + A.T) / 2
        return A, Q0, L

    def estimate(self, kind, n, A, Q0):
        torch = _torch()
        if kind == "zero":
            return torch.zeros(n, n, dtype=torch.float64)
        if kind == "random_orth":
            return self.orth(n)
        if kind == "identity":
            return torch.eye(n, dtype=torch.float64)
        if kind == "neg_identity":
            return -torch.eye(n, dtype=torch.float64)
        if kind == "permutation":       # a signed permutation matrix
            p = list(range(n))
            self.ck.rng.shuffle(p)
            s = torch.tensor([self.ck.rng.choice((-1.0, 1.0)) for _ in range(n)], dtype=torch.float64)
            return (torch.eye(n, dtype=torch.float64) * s.unsqueeze(0))[:, p].clone()
        if kind == "single_entry":      # `.any()` is an exact test: one entry of 2^-17, everything else zero
            E = torch.zeros(n, n, dtype=torch.float64)
            if n:
                E[self.ck.rng.randrange(n), self.ck.rng.randrange(n)] = 2.0 ** -17
            return E
        if kind == "neg_zero":          # all entries -0.0: still "no estimate"
            return -torch.zeros(n, n, dtype=torch.float64)
        if Q0 is None:
            Q0 = torch.linalg.eigh(A)[1] if n else A
        if kind == "exact":
            return Q0.clone()
        if kind == "exact_shuffled":     # exact eigenvectors, columns permuted and some signs flipped
            p = list(range(n))
            self.ck.rng.shuffle(p)
            s = torch.tensor([self.ck.rng.choice((-1.0, 1.0)) for _ in range(n)], dtype=torch.float64)
            return (Q0 * s.unsqueeze(0))[:, p].clone()
        if kind == "perturbed":
            return Q0 + 1e-3 * self.randn(n, n)
        if kind == "perturbed_orth":
            if n == 0:
                return Q0.clone()
            return torch.linalg.qr(Q0 + 1e-3 * self.randn(n, n)).Q
        if kind == "random":             # not orthonormal
            return self.randn(n, n)
        if kind == "scaled_orth":        # orthogonal columns of norm 64 or 1/64: ||last_Q|| differs from ||Q|| in the first iteration
            return self.orth(n) * self.ck.rng.choice((64.0, 1.0 / 64.0))
        raise KeyError(kind)


A_KINDS = ["distinct", "distinct_log", "repeated", "rankdef", "zero", "identity", "diag", "gram"]
E_KINDS = ["zero", "exact", "exact_shuffled", "random_orth", "perturbed", "perturbed_orth", "random", "scaled_orth"]
A_KINDS_STRUCT = ["rank1_pm", "equicorr", "dead_coord", "indefinite", "neg_def", "tiny", "huge", "tiny30"]
E_KINDS_STRUCT = ["identity", "neg_identity", "permutation", "single_entry", "neg_zero"]
TOLS = [0.0, 1e-5, 0.1, 10.0]


def hexrows(t):
    return [[float(x).hex() for x in row] for row in t.double().tolist()]


def gen_cases(ck: Check):
    """A case is a JSON-able dict; tensors are lists of rows of float.hex() strings (exact)."""
    torch = _torch()
    g = Gen(ck)
    rng = ck.rng
    thorough = ck.tier == "thorough"
    max_mi = 50 if thorough else 8
    reps = 6 if thorough else 1
    cases = []

    def add(kind, shape, A, est, cfg, is_diag=False, dtA="f64", dtE="f64", fault=None, akind="", ekind="", layout=None, tags=()):
        cases.append({"kind": kind, "shape": list(shape), "dtA": dtA, "dtE": dtE, "layout": layout, "tags": list(tags),
                      "A": None if A is None else hexrows(A.to(tdtype(dtA))) if A.dim() == 2 else None,
                      "Afill": None if A is None or A.dim() == 2 else float(A.reshape(-1)[0]) if A.numel() else 0.0,
                      "est": None if est is None else hexrows(est.to(tdtype(dtE))),
                      "cfg": cfg, "is_diag": is_diag, "fault": fault, "akind": akind, "ekind": ekind})

    def pick_mi():
        r = rng.random()
        if r < 0.05:
            return rng.choice((0, -1))
        if r < 0.45:
            return rng.randint(1, 3)
        return rng.randint(1, max_mi)

    for _ in range(reps):
        for n in range(1, 11):
            for ak in A_KINDS:
                A, Q0, L = g.matrix(ak, n)
                # eigendecomposition config
                add("eigh", (n, n), A, None, ["eigh", rng.random() < 0.7, rng.choice(("", "", "cpu"))], akind=ak)
                for ek in E_KINDS:
                    E = g.estimate(ek, n, A, Q0)
                    add("qr", (n, n), A, E, ["qr", pick_mi(), rng.choice(TOLS)], akind=ak, ekind=ek)
        # long runs on the largest sizes
        for n in (7, 9, 10):
            A, Q0, L = g.matrix("distinct_log", n)
            add("qr", (n, n), A, g.estimate("random_orth", n, A, Q0), ["qr", max_mi, 0.0], akind="distinct_log", ekind="random_orth")
            add("qr", (n, n), A, g.estimate("perturbed", n, A, Q0), ["qr", max_mi, 1e-5], akind="distinct_log", ekind="perturbed")

        # dispatch: is_diagonal, unknown config, missing estimate, shapes
        for n in (1, 2, 3, 5, 10):
            A, Q0, L = g.matrix(rng.choice(("diag", "distinct")), n)
            for cfg in (["eigh", True, ""], ["qr", 2, 1e-5], ["other"]):
                add("isdiag", (n, n), A, g.estimate("random_orth", n, A, Q0), cfg, is_diag=True, akind="diag")
            add("other", (n, n), A, g.estimate("random_orth", n, A, Q0), ["other"], akind="distinct")
            add("other", (n, n), A, g.estimate("random_orth", n, A, Q0), ["other_sub_qr"], akind="distinct")
            add("noest", (n, n), A, None, ["qr", 2, 1e-5], akind="distinct")
        for sh in ((1,), (1, 1, 1), (), (1, 1), (2, 3), (3, 2), (1, 2), (2, 2, 2), (4,), (0,), (0, 0), (0, 3), (1, 0), (1, 1, 2), (2, 1, 1)):
            fill = torch.full(sh, float(rng.randint(1, 5)), dtype=torch.float64)
            for cfg in (["eigh", True, ""], ["qr", 1, 1e-5], ["other"]):
                for isd in (False, True):
                    add("shape", sh, fill, fill if cfg[0] == "qr" and len(sh) == 2 and rng.random() < 0.5 else None, cfg, is_diag=isd)
        # empty matrix through every branch
        Z0 = torch.zeros(0, 0, dtype=torch.float64)
        add("eigh", (0, 0), Z0, None, ["eigh", True, ""], akind="empty")
        add("qr", (0, 0), Z0, Z0, ["qr", 3, 0.0], akind="empty", ekind="zero")

        # injected oracle failures: retry protocol of matrix_eigenvalue_decomposition, propagation out of the loop
        for n in (2, 4):
            A, Q0, L = g.matrix("distinct", n)
            for dtA in ("f64", "f32"):
                for retry in (True, False):
                    for fault in ("eigh0", "eigh01"):
                        add("fault", (n, n), A, None, ["eigh", retry, ""], dtA=dtA, fault=fault, akind="distinct")
                for fault in ("eigh0", "eigh01"):
                    add("fault", (n, n), A, g.estimate("zero", n, A, Q0), ["qr", 2, 0.0], dtA=dtA, fault=fault, akind="distinct", ekind="zero")
                for fault in ("qr0", "qr1"):
                    add("fault", (n, n), A, g.estimate("random_orth", n, A, Q0), ["qr", 3, 0.0], dtA=dtA, fault=fault, akind="distinct", ekind="random_orth")

        # dtype pairings (tags, control flow, exceptions; values at a loose tolerance): A in f32/bf16, estimate in any dtype
        for n in (2, 3, 6):
            A, Q0, L = g.matrix("distinct", n)
            for dtA in ("f32", "f64", "bf16"):
                for dtE in ("bf16", "f32", "f64"):
                    if dtA == "f64" and dtE == "f64":
                        continue
                    add("dtype", (n, n), A, g.estimate("random_orth", n, A, Q0), ["qr", rng.randint(1, 3), rng.choice((0.0, 10.0))], dtA=dtA, dtE=dtE, akind="distinct", ekind="random_orth")
                    add("dtype", (n, n), A, g.estimate("zero", n, A, Q0), ["qr", 2, 1e-5], dtA=dtA, dtE=dtE, akind="distinct", ekind="zero")
                add("dtype", (n, n), A, None, ["eigh", True, ""], dtA=dtA, akind="distinct")
                add("dtype", (n, n), A, None, ["eigh", False, ""], dtA=dtA, akind="distinct")

    # ---------------- quantifier audit: classes the property names or plainly allows, in BOTH tiers ----------------
    for _ in range(3 if thorough else 1):
        # structured matrices through both methods
        for n in (2, 3, 5, 8):
            for ak in A_KINDS_STRUCT:
                A, Q0, L = g.matrix(ak, n)
                add("eigh", (n, n), A, None, ["eigh", True, ""], akind=ak, tags=["structured_matrix"])
                for ek in ("zero", "exact", "random_orth"):
                    add("qr", (n, n), A, g.estimate(ek, n, A, Q0), ["qr", rng.randint(1, 4), rng.choice(TOLS)], akind=ak, ekind=ek, tags=["structured_matrix"])
        # structured estimates
        for n in (2, 4, 7):
            for ak in ("distinct", "repeated", "zero", "diag"):
                A, Q0, L = g.matrix(ak, n)
                for ek in E_KINDS_STRUCT:
                    add("qr", (n, n), A, g.estimate(ek, n, A, Q0), ["qr", rng.randint(1, 4), rng.choice(TOLS)], akind=ak, ekind=ek, tags=["structured_estimate"])
        # float32 on every dispatch path and estimate kind (tags, control flow, exceptions; values at 1e-4)
        for n in (1, 2, 3, 5, 8):
            for ak in A_KINDS:
                A, Q0, L = g.matrix(ak, n)
                add("eigh", (n, n), A, None, ["eigh", rng.random() < 0.5, ""], dtA="f32", akind=ak, tags=["f32_path"])
                for ek in ("zero", "exact", "random_orth", "perturbed_orth"):
                    add("qr", (n, n), A, g.estimate(ek, n, A, Q0), ["qr", rng.randint(1, 4), rng.choice(TOLS)], dtA="f32", dtE=rng.choice(("f32", "f32", "bf16", "f16")),
                        akind=ak, ekind=ek, tags=["f32_path"])
        for dtA in ("f32", "f16", "bf16"):
            for n in (2, 5):
                A, Q0, L = g.matrix("diag", n)
                add("isdiag", (n, n), A, None, ["eigh", True, ""], is_diag=True, dtA=dtA, akind="diag", tags=["lowprec_dispatch"])
                add("isdiag", (n, n), A, g.estimate("random_orth", n, A, Q0), ["qr", 1, 1e-5], is_diag=True, dtA=dtA, dtE=dtA, akind="diag", tags=["lowprec_dispatch"])
                add("other", (n, n), A, None, ["other"], dtA=dtA, akind="diag", tags=["lowprec_dispatch"])
                add("noest", (n, n), A, None, ["qr", 1, 1e-5], dtA=dtA, akind="diag", tags=["lowprec_dispatch"])
                add("eigh", (n, n), A, None, ["eigh", True, ""], dtA=dtA, akind="diag", tags=["lowprec_dispatch"])
                add("eigh", (n, n), A, None, ["eigh", False, ""], dtA=dtA, akind="diag", tags=["lowprec_dispatch"])
                add("qr", (n, n), A, g.estimate("random_orth", n, A, Q0), ["qr", 2, 0.0], dtA=dtA, dtE="f32", akind="diag", ekind="random_orth", tags=["lowprec_dispatch"])
            for sh in ((1, 1), (1,), (), (2, 3), (2, 2, 2)):
                add("shape", sh, torch.full(sh, float(rng.choice((-2, 0, 3))), dtype=torch.float64), None, ["eigh", True, ""], dtA=dtA, tags=["lowprec_dispatch"])
        # one-element tensors holding 0, a negative number, a huge number
        for v in (0.0, -3.0, 1e300):
            for cfg in (["eigh", True, ""], ["qr", 2, 1e-5], ["other"]):
                add("shape", (1, 1), torch.full((1, 1), v, dtype=torch.float64), torch.zeros(1, 1, dtype=torch.float64) if cfg[0] == "qr" else None, cfg, tags=["one_element_values"])
        # sizes beyond 10 in the tie (the model costs O(n^4) list steps per product: few cases)
        for n, mi in ((16, 2), (33, 1), (64, 1)):
            A, Q0, L = g.matrix("distinct_log", n)
            for dtA in ("f64", "f32"):
                add("eigh", (n, n), A, None, ["eigh", True, ""], dtA=dtA, akind="distinct_log", tags=["size_gt_10"])
                add("qr", (n, n), A, g.estimate("zero", n, A, Q0), ["qr", 2, 1e-5], dtA=dtA, dtE=dtA, akind="distinct_log", ekind="zero", tags=["size_gt_10"])
                add("isdiag", (n, n), A, None, ["eigh", True, ""], is_diag=True, dtA=dtA, akind="distinct_log", tags=["size_gt_10"])
            add("qr", (n, n), A, g.estimate("random_orth", n, A, Q0), ["qr", mi, 0.0], akind="distinct_log", ekind="random_orth", tags=["size_gt_10"])
            add("qr", (n, n), A, g.estimate("exact", n, A, Q0), ["qr", 1, 1e-5], dtA="f32", dtE="f32", akind="distinct_log", ekind="exact", tags=["size_gt_10"])
        # max_iterations 9..50 in the quick tier too, budget used up (tolerance 0) and not (1e-5)
        for n, mi, tol in ((3, 9, 0.0), (4, 13, 0.0), (5, 25, 0.0), (3, 50, 0.0), (6, 50, 1e-5), (4, 37, 1e-5)):
            A, Q0, L = g.matrix("distinct", n)
            add("qr", (n, n), A, g.estimate("random_orth", n, A, Q0), ["qr", mi, tol], akind="distinct", ekind="random_orth", tags=["max_iterations_gt_8"])
        # tolerances outside [0, inf): inf > tolerance decides whether the first iteration is made
        for tol in (math.inf, math.nan, -1.0, -math.inf, 5e-324, 1e300):
            for ek in ("random_orth", "exact"):
                n = rng.choice((2, 3, 4))
                A, Q0, L = g.matrix("distinct", n)
                add("qr", (n, n), A, g.estimate(ek, n, A, Q0), ["qr", 3, tol], akind="distinct", ekind=ek, tags=["special_tolerance"])
        # non-default memory layouts of A and of the estimate (column-major; a window of a larger buffer)
        for layout in ("T", "offset"):
            for n in (2, 5, 9):
                A, Q0, L = g.matrix(rng.choice(("distinct", "gram")), n)
                add("eigh", (n, n), A, None, ["eigh", True, ""], akind="distinct", layout=layout, tags=["memory_layout"])
                add("qr", (n, n), A, g.estimate("random_orth", n, A, Q0), ["qr", 2, 0.0], akind="distinct", ekind="random_orth", layout=layout, tags=["memory_layout"])
                add("qr", (n, n), A, g.estimate("zero", n, A, Q0), ["qr", 2, 0.0], akind="distinct", ekind="zero", layout=layout, tags=["memory_layout"])
                add("isdiag", (n, n), A, None, ["qr", 2, 0.0], is_diag=True, akind="distinct", layout=layout, tags=["memory_layout"])
        # call forms: default config (no config argument), subclass of EighEigenvectorConfig, a RootInvConfig (EigenConfig)
        for n in (2, 4):
            A, Q0, L = g.matrix("distinct", n)
            add("eigh", (n, n), A, None, ["default"], akind="distinct", tags=["call_form"])
            add("isdiag", (n, n), A, None, ["default"], is_diag=True, akind="distinct", tags=["call_form"])
            add("other", (n, n), A, g.estimate("random_orth", n, A, Q0), ["other_sub_eigh"], akind="distinct", tags=["call_form"])
            add("other", (n, n), A, g.estimate("random_orth", n, A, Q0), ["other_eigenconfig"], akind="distinct", tags=["call_form"])
        # the same call again after a different one in the same process (module-level / cached state)
        for n in (2, 3, 5):
            A, Q0, L = g.matrix("distinct", n)
            B, QB, LB = g.matrix("repeated", n)
            E = g.estimate("random_orth", n, A, Q0)
            for cfgs in ((["qr", 2, 0.0], ["qr", 1, 10.0]), (["eigh", True, ""], ["qr", 2, 0.0])):
                add("repeat", (n, n), A, E, cfgs[0], akind="distinct", ekind="random_orth", tags=["second_call_same_process"])
                add("repeat", (n, n), B, g.estimate("zero", n, B, QB), cfgs[1], akind="repeated", ekind="zero", tags=["second_call_same_process"])
                add("repeat", (n, n), A, E, cfgs[0], akind="distinct", ekind="random_orth", tags=["second_call_same_process"])
    return cases


# ---------------------------------------------------------------------------------------------
# running the implementation with recording oracles


class Injected(RuntimeError):
    pass


class InputMutated(RuntimeError):
    pass


class Runaway(RuntimeError):
    """raised by the recording qr wrapper when the implementation keeps iterating far beyond max_iterations"""


MAX_QR_CALLS = 120


def build_inputs(case):
    torch = _torch()
    sh = tuple(case["shape"])
    if case["A"] is not None:
        A = torch.tensor([[float.fromhex(x) for x in row] for row in case["A"]], dtype=torch.float64).reshape(sh).to(tdtype(case["dtA"]))
    else:
        A = torch.full(sh, case["Afill"] or 0.0, dtype=tdtype(case["dtA"]))
    E = None
    if case["est"] is not None:
        E = torch.tensor([[float.fromhex(x) for x in row] for row in case["est"]], dtype=torch.float64)
        E = E.reshape(sh if len(sh) == 2 else E.shape).to(tdtype(case["dtE"]))

    def relayout(X):
        if X is None or X.dim() != 2 or not case.get("layout"):
            return X
        if case["layout"] == "T":                   # same values, column-major strides
            return X.t().contiguous().t()
        r, c = X.shape                              # a window of a larger buffer: storage offset, row stride c + 2
        buf = torch.full((r + 1, c + 2), 7.0, dtype=X.dtype)
        buf[1:, 1:c + 1] = X
        return buf[1:, 1:c + 1]
    return relayout(A), relayout(E)


def make_cfg(c):
    from matrix_functions_types import EigenvectorConfig, EighEigenvectorConfig, QRConfig
    from dataclasses import dataclass
    if c[0] == "eigh":
        return EighEigenvectorConfig(retry_double_precision=bool(c[1]), eigen_decomp_offload_device=c[2])
    if c[0] == "other_sub_eigh":    # `type(cfg) is EighEigenvectorConfig` is False for a subclass

        @dataclass(kw_only=True)
        class MyEigh(EighEigenvectorConfig):
            pass
        return MyEigh()
    if c[0] == "other_eigenconfig":  # a root-inverse config that also is an EigenvalueDecompositionConfig
        from matrix_functions_types import EigenConfig
        return EigenConfig()
    if c[0] == "qr":
        return QRConfig(max_iterations=int(c[1]), tolerance=float(c[2]))
    if c[0] == "other_sub_qr":      # `type(cfg) is QRConfig` is False for a subclass

        @dataclass(kw_only=True)
        class MyQR(QRConfig):
            pass
        return MyQR()

    @dataclass(kw_only=True)
    class Unknown(EigenvectorConfig):
        pass
    return Unknown()


def run_impl(case):
    """-> dict(outcome, eigh_in, eigh_out, qr_in, qr_out, argsort)"""
    torch = _torch()
    import matrix_functions as mf
    A, E = build_inputs(case)
    A_before, E_before = A.clone(), None if E is None else E.clone()
    cfg = None if case["cfg"][0] == "default" else make_cfg(case["cfg"])
    rec = {"eigh_in": [], "eigh_out": [], "qr_in": [], "qr_out": [], "argsort": [], "oracle_exc": []}
    real_eigh, real_qr, real_argsort = torch.linalg.eigh, torch.linalg.qr, torch.Tensor.argsort
    fault = case.get("fault") or ""

    def w_eigh(X, *a, **k):
        i = len(rec["eigh_in"])
        rec["eigh_in"].append(hexrows(X))
        try:
            if fault.startswith("eigh") and str(i) in fault[4:]:
                raise Injected(f"injected eigh failure #{i}")
            r = real_eigh(X, *a, **k)
        except Exception as ex:  # noqa
            rec["eigh_out"].append(None)
            rec["oracle_exc"].append(ex)
            raise
        rec["eigh_out"].append(([float(x).hex() for x in r[0].double().tolist()], hexrows(r[1])))
        return r

    def w_qr(X, *a, **k):
        i = len(rec["qr_in"])
        if i >= MAX_QR_CALLS:
            raise Runaway(f"more than {MAX_QR_CALLS} qr calls")
        rec["qr_in"].append(hexrows(X))
        try:
            if fault.startswith("qr") and str(i) in fault[2:]:
                raise Injected(f"injected qr failure #{i}")
            r = real_qr(X, *a, **k)
        except Exception as ex:  # noqa
            rec["qr_out"].append(None)
            rec["oracle_exc"].append(ex)
            raise
        rec["qr_out"].append(hexrows(r.Q))
        return r

    def w_argsort(self, *a, **k):
        r = real_argsort(self, *a, **k)
        if self.dim() == 1:
            rec["argsort"].append([int(x) for x in r.tolist()])
        return r

    with mock.patch.object(mf.torch.linalg, "eigh", w_eigh), mock.patch.object(mf.torch.linalg, "qr", w_qr), \
            mock.patch.object(torch.Tensor, "argsort", w_argsort):
        try:
            if cfg is None:       # the documented defaults: no estimate, DefaultEighEigenvectorConfig
                Q = mf.matrix_eigenvectors(A, is_diagonal=True) if case["is_diag"] else mf.matrix_eigenvectors(A)
            else:
                Q = mf.matrix_eigenvectors(A, E, cfg, is_diagonal=case["is_diag"])
            same = lambda x, y: x.shape == y.shape and x.dtype == y.dtype and bool(((x == y) | (x.isnan() & y.isnan())).all())  # noqa
            if not same(A, A_before) or (E is not None and not same(E, E_before)):
                raise InputMutated("matrix_eigenvectors modified its " + ("matrix" if not same(A, A_before) else "estimate") + " argument in place")
            if Q.numel() == 1:
                rows = [[float(Q.reshape(-1)[0]).hex()]]
            elif Q.dim() == 2:
                rows = hexrows(Q)
            else:
                rows = [[float(x).hex() for x in Q.double().reshape(-1).tolist()]]
            out = {"ok": True, "shape": list(Q.shape), "dt": tag_of(Q.dtype), "rows": rows}
        except Exception as ex:  # noqa
            if any(ex is o for o in rec["oracle_exc"]):
                cls = "OracleError"
            elif type(ex) is ValueError and "not 2-dimensional" in str(ex):
                cls = "ValueError NotTwoDim"
            elif type(ex) is ValueError and "not square" in str(ex):
                cls = "ValueError NotSquare"
            elif type(ex) is NotImplementedError:
                cls = "NotImplementedError"
            elif type(ex) is AssertionError:
                cls = "AssertionError"
            else:
                cls = "OtherError"
            out = {"ok": False, "exn": cls, "pyclass": type(ex).__name__, "msg": str(ex)[:200]}
            if isinstance(ex, Runaway):
                # keep the case file small: the model cannot agree with a runaway loop anyway
                keep = max(0, int(case["cfg"][1]) if case["cfg"][0] == "qr" else 0) + 2
                rec["qr_in"], rec["qr_out"] = rec["qr_in"][:keep], rec["qr_out"][:keep]
    return {"outcome": out, "eigh_in": rec["eigh_in"], "eigh_out": rec["eigh_out"], "qr_in": rec["qr_in"], "qr_out": rec["qr_out"],
            "argsort": rec["argsort"][0] if len(rec["argsort"]) == 1 else None, "n_argsort": len(rec["argsort"]),
            "oracle_raised": bool(rec["oracle_exc"])}


# ---------------------------------------------------------------------------------------------
# Coq literals


def cf(h: str) -> str:
    return coq_float(float.fromhex(h))


def cmat(rows) -> str:
    return "[" + "; ".join("[" + "; ".join(cf(x) for x in r) + "]" for r in rows) + "]"


def cnats(l) -> str:
    return "[" + "; ".join(str(int(x)) for x in l) + "]%nat"


def ccfg(c) -> str:
    if c[0] == "default":
        return "(EighCfg true)"
    if c[0] == "eigh":
        return f"(EighCfg {coq_bool(bool(c[1]))})"
    if c[0] == "qr":
        return f"(QRCfg ({int(c[1])})%Z {coq_float(float(c[2]))})"
    return "OtherCfg"


def copt(x, f) -> str:
    return "None" if x is None else f"(Some {f(x)})"


def case_fields(case):
    """Coq terms for (shape, dt, A, est, cfg, isdiag)."""
    A = case["A"] if case["A"] is not None else []
    return cnats(case["shape"]), DT[case["dtA"]], cmat(A), copt(case["est"], cmat), ccfg(case["cfg"]), coq_bool(case["is_diag"])


def cimpl(out) -> str:
    if out["ok"]:
        dt = DT.get(out["dt"], "BF16")
        return f"(IOk {cnats(out['shape'])} {dt} {cmat(out['rows'])})"
    return f"(IRaise ({out['exn']}))"


def coq_case(case, r) -> str:
    sh, dt, A, est, cfg, isd = case_fields(case)
    eo = "[" + "; ".join("None" if e is None else f"Some ([{'; '.join(cf(x) for x in e[0])}], {cmat(e[1])})" for e in r["eigh_out"]) + "]"
    qo = "[" + "; ".join("None" if q is None else f"Some {cmat(q)}" for q in r["qr_out"]) + "]"
    ei = "[" + "; ".join(cmat(m) for m in r["eigh_in"]) + "]"
    qi = "[" + "; ".join(cmat(m) for m in r["qr_in"]) + "]"
    return (f"(mkCase {sh} {dt} {A} {est} {cfg} {isd}\n  {ei} {eo}\n  {qi} {qo}\n  {copt(r['argsort'], cnats)} {cimpl(r['outcome'])} {coq_float(TOL[case['dtA']])})")


def coq_check(case, r) -> str:
    sh, dt, A, est, cfg, isd = case_fields(case)
    est_m = "None" if case["est"] is None else f"(Some (of_rows FO {cmat(case['est'])}))"
    out = r["outcome"]
    if out["ok"]:
        obs = f"(ObsOk {cnats(out['shape'])} (of_rows FO {cmat(out['rows'])}))"
    else:
        obs = f"(ObsRaise ({out['exn']}))"
    n = case["shape"][0] if len(case["shape"]) == 2 else 1
    amax = max([abs(float.fromhex(x)) for row in (case["A"] or []) for x in row] + [1.0])
    tol = TOL[case["dtA"]] * amax * (n + 1)
    return f"(C12_checkb FO {coq_float(tol)} {sh} (of_rows FO {A}) {est_m} {cfg} {isd} {coq_bool(r['oracle_raised'])} {obs})"


HEADER = """From Coq Require Import ZArith List String Floats.
From Shampoo Require Import Scalar Matrix Show Eigenvectors EigenvectorsChecker.
Import ListNotations. Import Run. Open Scope float_scope.
"""

NCOMP = 6
COMPONENTS = ["returned tensor / exception", "matrices handed to qr", "matrices handed to eigh", "iteration count",
              "argsort answer sorts the model's Rayleigh quotients", "insertion-sort instance gives the same result"]


def shard(items, max_bytes=900_000, max_items=400):
    cur, size = [], 0
    for it in items:
        if cur and (size + len(it) > max_bytes or len(cur) >= max_items):
            yield cur
            cur, size = [], 0
        cur.append(it)
        size += len(it)
    if cur:
        yield cur


def eval_bools(ck: Check, prefix: str, terms: list[str], per_term: int, wrap: str) -> list[str]:
    """terms -> one string of per_term 'T'/'F' characters per term (computed by coqc)."""
    sources, counts = {}, []
    for fi, chunk in enumerate(shard(terms)):
        body = ";\n".join(chunk)
        sources[f"{prefix}_{fi:04d}"] = HEADER + f"Definition results : list bool := {wrap} [\n{body}\n].\nEval vm_compute in show_bools results.\n"
        counts.append(len(chunk))
    out = ck.eval_coq(sources)
    res = []
    for fi, cnt in enumerate(counts):
        s = out[f"{prefix}_{fi:04d}"][0]
        assert len(s) == cnt * per_term, (prefix, fi, len(s), cnt, per_term)
        res += [s[i * per_term:(i + 1) * per_term] for i in range(cnt)]
    return res


# ---------------------------------------------------------------------------------------------
# classification helpers (harness side, from the INPUT only)


def path_of(case) -> str:
    sh = case["shape"]
    if math.prod(sh) == 1:
        return "one"
    if len(sh) != 2 or sh[0] != sh[1]:
        return "shape-guard"
    if case["is_diag"]:
        return "diagonal-flag"
    c = case["cfg"][0]
    if c in ("eigh", "default"):
        return "eigh"
    if c == "qr":
        if case["est"] is None:
            return "qr-no-estimate"
        if all(float.fromhex(x) == 0.0 for row in case["est"] for x in row):
            return "qr-zero-estimate"
        return "qr-loop"
    return "unknown-config"


def signature(case) -> str:
    return f"C12:{path_of(case)}:{case['dtA']}/{case['dtE'] if case['est'] is not None else '-'}" + (f":fault={case['fault']}" if case.get("fault") else "")


# ---------------------------------------------------------------------------------------------
# measurement of the real LAPACK-backed paths (testing, labelled as such)

# budgets in units of n*u (orthonormality), n*u*||A|| (diagonalisation, order) and n*u*||A||/gap (fixed eigenbasis);
# fixed after measuring seeds 0,1,2 of both tiers: see `measured_max` in the evidence; margin >= 10x
BUDGET = {"orth": 50.0, "diag": 20.0, "order": 20.0, "fixed": 12.0}


def measure(ck: Check):
    torch = _torch()
    import matrix_functions as mf
    from matrix_functions_types import EighEigenvectorConfig, QRConfig
    g = Gen(ck)
    rng = ck.rng
    thorough = ck.tier == "thorough"
    sizes = [1, 2, 3, 4, 5, 8, 13, 16, 32, 64] if thorough else [1, 2, 3, 5, 8, 16, 32, 64]
    reps = 6 if thorough else 2
    worst = {}     # (path, dtype, quantity) -> (value, descr)
    count = 0
    hist = {}
    info = {}
    sized = {}

    def note(path, dt, q, val, descr):
        key = f"{path}/{dt}/{q}"
        if key not in worst or val > worst[key][0]:
            worst[key] = (val, descr)

    def residuals(A, Q, u):
        n = A.shape[0]
        A64, Q64 = A.double(), Q.double()
        nA = max(float(torch.linalg.matrix_norm(A64, 2)) if n else 0.0, 1e-300)
        I = torch.eye(n, dtype=torch.float64)
        orth = float((Q64.T @ Q64 - I).abs().max()) / (n * u) if n else 0.0
        D = Q64.T @ A64 @ Q64
        d = torch.diagonal(D)
        off = float((D - torch.diag(d)).abs().max()) / (n * u * nA) if n else 0.0
        order = max([float(d[i] - d[i + 1]) for i in range(n - 1)] + [0.0]) / (n * u * nA)
        return orth, off, order

    # guard against a loop that no longer terminates: count qr calls per run
    real_qr = torch.linalg.qr
    calls = [0]

    def counting_qr(X, *a, **k):
        calls[0] += 1
        if calls[0] > MAX_QR_CALLS:
            raise Runaway(f"more than {MAX_QR_CALLS} qr calls in one run")
        return real_qr(X, *a, **k)

    class _Eig:
        @staticmethod
        def matrix_eigenvectors(A, E, cfg):
            calls[0] = 0
            with mock.patch.object(mf_real.torch.linalg, "qr", counting_qr):
                return mf_real.matrix_eigenvectors(A, E, cfg)

    mf_real, mf = mf, _Eig
    for dt in ("f32", "f64"):
        u = 2.0 ** -24 if dt == "f32" else 2.0 ** -53
        for n in sizes:
            for ak in ("distinct", "distinct_log", "repeated", "rankdef", "zero", "gram", "rank1_pm", "equicorr", "dead_coord", "indefinite", "identity", "diag"):
                for _ in range(reps if ak in ("distinct", "distinct_log", "repeated", "rankdef", "zero", "gram") else 1):
                    A64, Q0, L = g.matrix(ak, n)
                    if ak == "distinct_log" and dt == "f32":
                        # keep cond <= 1e3 in float32
                        Ls = sorted(10.0 ** rng.uniform(-1.5, 1.5) for _ in range(n))
                        A64 = (Q0 * torch.tensor(Ls, dtype=torch.float64).unsqueeze(0)) @ Q0.T
                        A64 = (A64 + A64.T) / 2
                        L = Ls
                    A = A64.to(tdtype(dt))
                    A = (A + A.T) / 2
                    descr = {"dtype": dt, "n": n, "kind": ak, "A": hexrows(A)}
                    hist[f"{dt}/{ak}"] = hist.get(f"{dt}/{ak}", 0) + 1
                    sized[f"{dt}/{n}"] = sized.get(f"{dt}/{n}", 0) + 2
                    # eigh path
                    Q = mf.matrix_eigenvectors(A, None, EighEigenvectorConfig())
                    o, f, r = residuals(A, Q, u)
                    note("eigh", dt, "orth", o, dict(descr, path="eigh"))
                    note("eigh", dt, "diag", f, dict(descr, path="eigh"))
                    note("eigh", dt, "order", r, dict(descr, path="eigh"))
                    count += 1
                    # QR path, random orthonormal estimate
                    E = g.orth(n).to(tdtype(dt))
                    mi = rng.choice((1, 2, 5))
                    Q = mf.matrix_eigenvectors(A, E, QRConfig(max_iterations=mi, tolerance=0.0))
                    o, f, r = residuals(A, Q, u)
                    dq = dict(descr, path="qr", estimate=hexrows(E), max_iterations=mi)
                    note("qr", dt, "orth", o, dq)
                    note("qr", dt, "order", r, dq)
                    count += 1
            # QR path started AT an eigenbasis (the one eigh returns, ascending) of a positive definite matrix with
            # evenly spaced eigenvalues in [1, cond]: equality up to column signs.  The ascending order is the
            # REPELLING fixed point of orthogonal iteration: rounding errors grow like cond^iterations, which is
            # what the residual is normalised by (the cond^1 normalisation is recorded as information only).
            for cond in ((2.0, 10.0) if dt == "f32" else (2.0, 10.0, 1000.0)):
                for mi in (1, 2, 3):
                    if n < 2:
                        continue
                    for _ in range(max(1, reps // 2)):
                        Q0 = g.orth(n)
                        Ls = [1.0 + (cond - 1.0) * i / (n - 1) for i in range(n)]
                        A64 = (Q0 * torch.tensor(Ls, dtype=torch.float64).unsqueeze(0)) @ Q0.T
                        A = ((A64 + A64.T) / 2).to(tdtype(dt))
                        Lt, Qe = torch.linalg.eigh(A)
                        gap = min(float(Lt[i + 1] - Lt[i]) for i in range(n - 1))
                        c_true = float(Lt[-1] / Lt[0])
                        norm = n * u * (c_true ** mi + float(Lt[-1]) / gap)
                        if not (gap > 0 and float(Lt[0]) > 0) or norm * BUDGET["fixed"] > 0.25:
                            hist["fixed/vacuous"] = hist.get("fixed/vacuous", 0) + 1
                            continue
                        tol = rng.choice((0.0, 1e-5))
                        Q = mf.matrix_eigenvectors(A, Qe.clone(), QRConfig(max_iterations=mi, tolerance=tol))
                        dev = 0.0
                        for j in range(n):
                            a, b = Q[:, j].double(), Qe[:, j].double()
                            dev = max(dev, min(float((a - b).abs().max()), float((a + b).abs().max())))
                        dq = {"dtype": dt, "n": n, "kind": f"evenly spaced spectrum in [1,{cond}]", "A": hexrows(A), "path": "qr-fixed",
                              "max_iterations": mi, "tolerance": tol, "estimate": hexrows(Qe)}
                        note("qr-fixed", dt, "fixed", dev / norm, dq)
                        info[f"qr-fixed/{dt}/dev_over_n_u_cond/iterations={mi}"] = max(info.get(f"qr-fixed/{dt}/dev_over_n_u_cond/iterations={mi}", 0.0), dev / (n * u * c_true))
                        hist[f"fixed/{dt}"] = hist.get(f"fixed/{dt}", 0) + 1
                        count += 1
    table = {k: round(v[0], 4) for k, v in sorted(worst.items())}
    over = []
    for k, (v, descr) in worst.items():
        q = k.split("/")[-1]
        if not (v <= BUDGET[q]):
            over.append((k, v, descr))
    return {"label": "MEASUREMENT (testing, not proof): residuals of the real torch.linalg.eigh / qr based paths",
            "runs": count, "units": {"orth": "max|Q^T Q - I| / (n u)", "diag": "max|offdiag Q^T A Q| / (n u ||A||_2)",
                                    "order": "max(d_i - d_{i+1}, 0) / (n u ||A||_2), d = diag(Q^T A Q)",
                                    "fixed": "max_j min_s |q_j - s q0_j|_max / (n u (cond^iterations + ||A||_2 / min gap))"},
            "informational": {k: round(v, 3) for k, v in sorted(info.items())},
            "measured_max": table, "budget": BUDGET, "sizes": sizes, "distribution": hist, "size_dtype": sized}, over


# ---------------------------------------------------------------------------------------------


def run(ck: Check) -> None:
    common.assert_repo_imports()
    logging.disable(logging.CRITICAL)
    torch = _torch()
    torch.set_num_threads(1)
    ck.coq_props(extra_targets=["theories/EigenvectorsChecker.vo"])
    gen_targets.run(ck)          # translator tie: Gallina regenerated from the source + coq/gen/EquivC12.v

    cases = gen_cases(ck)
    recs = [run_impl(c) for c in cases]
    bools = eval_bools(ck, "c12", [f"agree {coq_case(c, r)}" for c, r in zip(cases, recs)], NCOMP, "List.concat")
    bad = [i for i, b in enumerate(bools) if b != "T" * NCOMP]

    if bad:
        chk = eval_bools(ck, "c12chk", [coq_check(c, r) for c, r in zip(cases, recs)], 1, "")
        failing = [i for i in range(len(cases)) if chk[i] != "T"]
        if failing:
            failing.sort(key=lambda i: (i not in bad, math.prod(cases[i]["shape"]), len(recs[i]["qr_in"])))
            seen = set()
            for i in failing:
                sig = signature(cases[i])
                if sig in seen or len(seen) >= 3:
                    continue
                seen.add(sig)
                c, r = cases[i], recs[i]
                ck.report(sig, f"matrix_eigenvectors violates C12 on a {path_of(c)} input (shape {c['shape']}, A {c['dtA']}, cfg {c['cfg']}): observed {r['outcome'].get('exn') or 'a tensor'}"
                          f"{' ' + r['outcome'].get('pyclass', '') if not r['outcome']['ok'] else ''} fails C12_checkb",
                          {"kind": "property-fails", "case": c, "impl": r["outcome"], "n_failing": len(failing),
                           "predicate": "C12_checkb (shape/ones/identity/exception class per dispatch branch; |Q^T Q - I|, |offdiag Q^T A Q|, ascending Rayleigh quotients within tol)",
                           "components_disagreeing_with_model": bools[i] if i in bad else None})
        else:
            i = bad[0]
            comp = [COMPONENTS[k] for k, ch in enumerate(bools[i]) if ch != "T"]
            ck.report(None, f"model/implementation correspondence broken on {len(bad)} cases (first: {path_of(cases[i])}, shape {cases[i]['shape']}, cfg {cases[i]['cfg']}; differing: {comp}) but every observed output still passes C12_checkb",
                      {"kind": "correspondence", "case": cases[i], "impl": recs[i]["outcome"], "components": bools[i], "n_disagreeing": len(bad),
                       "n_qr_calls": len(recs[i]["qr_in"]), "n_eigh_calls": len(recs[i]["eigh_in"]), "argsort": recs[i]["argsort"],
                       "theorems_not_transferring": ["C12_eigvec_dispatch", "C12_qr_iter_is_permuted_iterate", "C12_qr_loop_bounds", "C12_qr_iter_orthonormal", "C12_qr_sorted_by_rayleigh", "C12_qr_fixes_eigenbasis"]},
                      no_failing_input=True)

    try:
        meas, over = measure(ck)
    except Runaway as ex:
        meas, over = {"label": "MEASUREMENT aborted", "runs": 0, "error": str(ex)}, []
        ck.report("C12:measured:runaway-loop", f"a real run of the QR method did not stop: {ex}", {"kind": "runaway", "error": str(ex)})
    for k, v, descr in over:
        ck.report(f"C12:measured:{k}", f"measured residual {k} = {v:.3g} exceeds the budget {BUDGET[k.split('/')[-1]]} (n={descr['n']}, {descr['dtype']}, {descr['kind']})",
                  {"kind": "measured-residual", "quantity": k, "value": v, "case": descr})

    # evidence
    paths, iters, dts, akinds, ekinds, outcomes = {}, {}, {}, {}, {}, {}
    nontriv = set()
    for c, r in zip(cases, recs):
        p = path_of(c)
        paths[p] = paths.get(p, 0) + 1
        k = len(r["qr_in"])
        b = "0" if k == 0 else "1" if k == 1 else "2-3" if k <= 3 else "4-8" if k <= 8 else "9-50"
        if p == "qr-loop":
            iters[b] = iters.get(b, 0) + 1
        dts[f"{c['dtA']}/{c['dtE'] if c['est'] is not None else '-'}"] = dts.get(f"{c['dtA']}/{c['dtE'] if c['est'] is not None else '-'}", 0) + 1
        if c["akind"]:
            akinds[c["akind"]] = akinds.get(c["akind"], 0) + 1
        if c["ekind"]:
            ekinds[c["ekind"]] = ekinds.get(c["ekind"], 0) + 1
        o = "tensor" if r["outcome"]["ok"] else r["outcome"]["exn"]
        outcomes[o] = outcomes.get(o, 0) + 1
        n = c["shape"][0] if len(c["shape"]) == 2 else 0
        if n >= 2 and ((p == "qr-loop" and (k >= 2 or (r["argsort"] is not None and r["argsort"] != sorted(r["argsort"])))) or (p in ("eigh", "qr-zero-estimate") and c["akind"] not in ("zero", "identity", "diag"))):
            nontriv.add(hashlib.sha1(repr((c["A"], c["est"], c["cfg"], c["dtA"], c["dtE"])).encode()).hexdigest())

    def sample(i):
        c, r = cases[i], recs[i]
        return {"path": path_of(c), "shape": c["shape"], "dtype_A": c["dtA"], "cfg": c["cfg"], "A_kind": c["akind"], "estimate_kind": c["ekind"],
                "qr_calls": len(r["qr_in"]), "eigh_calls": len(r["eigh_in"]), "argsort": r["argsort"],
                "outcome": r["outcome"] if not r["outcome"]["ok"] else {"shape": r["outcome"]["shape"], "dtype": r["outcome"]["dt"], "first_row": [float.fromhex(x) for x in r["outcome"]["rows"][0]] if r["outcome"]["rows"] else []},
                "agree": bools[i]}
    loop_idx = [i for i, c in enumerate(cases) if path_of(c) == "qr-loop"]

    # ---- quantifier audit: measured number of generated cases per input class the property names or allows ----
    audit: dict = {}

    def bump(k, cnd=True):
        if cnd:
            audit[k] = audit.get(k, 0) + 1
        else:
            audit.setdefault(k, 0)

    for c, r in zip(cases, recs):
        p = path_of(c)
        sh = c["shape"]
        n = sh[0] if len(sh) == 2 and sh[0] == sh[1] else None
        sq = n is not None
        bump("size: 0x0", sq and n == 0)
        bump("size: 1x1 / one-element tensors", math.prod(sh) == 1)
        bump("size: 2..10", sq and 2 <= n <= 10)
        bump("size: 11..64 (tie)", sq and n > 10)
        bump("shape: not 2-D or not square", p == "shape-guard")
        for dt in ("f64", "f32", "f16", "bf16"):
            bump(f"dtype of A: {dt}", c["dtA"] == dt)
        bump("dtype: estimate stored in another dtype than A", c["est"] is not None and c["dtE"] != c["dtA"])
        bump("float32: eigendecomposition path", c["dtA"] == "f32" and p in ("eigh", "qr-zero-estimate"))
        bump("float32: QR loop path", c["dtA"] == "f32" and p == "qr-loop")
        bump("float32/16: diagonal flag, one-element, guards, unknown config", c["dtA"] != "f64" and p in ("diagonal-flag", "one", "shape-guard", "unknown-config", "qr-no-estimate"))
        for t in c.get("tags", []):
            bump("class: " + t)
        if c["akind"]:
            bump("matrix: " + c["akind"])
        if c["ekind"]:
            bump("estimate: " + c["ekind"])
        bump("matrix exactly diagonal but NOT flagged (eigh or QR method)", c["akind"] in ("diag", "identity", "zero") and not c["is_diag"] and p in ("eigh", "qr-loop", "qr-zero-estimate"))
        bump("matrix not diagonal but flagged diagonal", c["is_diag"] and sq and c["akind"] not in ("diag", "identity", "zero", ""))
        bump("zero matrix with zero estimate", c["akind"] == "zero" and p == "qr-zero-estimate")
        bump("zero matrix with non-zero estimate", c["akind"] == "zero" and p == "qr-loop")
        if c["cfg"][0] == "qr" and p == "qr-loop":
            mi, tol = int(c["cfg"][1]), float(c["cfg"][2])
            bump("max_iterations <= 0", mi <= 0)
            bump("max_iterations = 1", mi == 1)
            bump("max_iterations 2..8", 2 <= mi <= 8)
            bump("max_iterations 9..50", 9 <= mi <= 50)
            bump("tolerance 0", tol == 0.0)
            bump("tolerance 1e-5", tol == 1e-5)
            bump("tolerance 0.1", tol == 0.1)
            bump("tolerance 10", tol == 10.0)
            bump("tolerance inf / nan / negative / denormal / huge", not (tol in (0.0, 1e-5, 0.1, 10.0)))
            k = len([q for q in r["qr_out"] if q is not None])
            bump("loop left because the relative change fell to <= tolerance", r["outcome"]["ok"] and mi >= 1 and k < mi)
            bump("loop left because max_iterations was used up", r["outcome"]["ok"] and mi >= 1 and k == mi)
            bump("argsort answer is not the identity permutation", r["argsort"] is not None and r["argsort"] != sorted(r["argsort"]))
        bump("config: EighEigenvectorConfig, retry on", c["cfg"][0] == "eigh" and bool(c["cfg"][1]))
        bump("config: EighEigenvectorConfig, retry off", c["cfg"][0] == "eigh" and not c["cfg"][1])
        bump("config: offload device 'cpu'", c["cfg"][0] == "eigh" and c["cfg"][2] == "cpu")
        bump("config: omitted (documented default)", c["cfg"][0] == "default")
        bump("config: unknown class / subclass of a known one", c["cfg"][0].startswith("other"))
        bump("QRConfig without an estimate", p == "qr-no-estimate")
        bump("fault: eigh raises (first call / both calls)", (c.get("fault") or "").startswith("eigh"))
        bump("fault: qr raises", (c.get("fault") or "").startswith("qr"))
        bump("platform: eigh / qr have no kernel for the dtype (real exception)", r["oracle_raised"] and not c.get("fault"))
    audit["measured real runs, float32, n in {16, 32, 64}"] = sum(v for k, v in meas.get("size_dtype", {}).items() if k.startswith("f32/") and int(k.split("/")[1]) >= 16)
    audit["measured real runs, float64, n in {16, 32, 64}"] = sum(v for k, v in meas.get("size_dtype", {}).items() if k.startswith("f64/") and int(k.split("/")[1]) >= 16)
    audit["measured: QR started at an exact eigenbasis (fixed up to signs), float32 / float64"] = sum(v for k, v in meas.get("distribution", {}).items() if k in ("fixed/f32", "fixed/f64"))
    not_exercised = {
        "NaN / inf entries in A or in the estimate": "outside the quantifier (symmetric PSD matrices); eigh on NaN input is LAPACK-defined",
        "non-symmetric A": "the routine documents `assumes matrix A is symmetric`; the eigh contract is stated for symmetric input",
        "estimate whose shape differs from A": "the model assumes equal shapes (a RuntimeError of torch.matmul otherwise); not named by the property",
        "sizes above 64, CUDA tensors, a real offload device other than 'cpu'": "outside the quantifier / no GPU in this sandbox; the offload device only moves data",
        "value-level tie in float32 at full precision": "values of float32 runs are compared at 1e-4 (the model computes in binary64); their dtype tags, control flow, oracle traffic and exceptions are compared exactly",
        "bfloat16 / float16 matrices through the LAPACK paths": "no CPU kernels (linalg_eigh_cpu / geqrf_cpu not implemented): exercised as the real exception / the float64 retry, which is what the platform does",
        "estimates with entries below 1e-150 (squares underflow in the Frobenius norm)": "torch.norm and the model's sqrt(sum of squares) may legitimately differ there; estimates are orthonormal or zero in the quantifier",
        "accuracy of eigh/qr themselves": "measured on every run (coverage.measurement), not proved",
    }
    ck.coverage.update({
        "evaluations": len(cases) + meas["runs"],
        "tie_cases": len(cases),
        "distinct_nontrivial": len(nontriv),
        "rule": "tie: one case = one call of matrix_eigenvectors with recording eigh/qr/argsort; non-trivial = n>=2 and (QR loop path with >=2 iterations or a non-identity argsort answer, or eigendecomposition path on a non-diagonal matrix); distinct by (A, estimate, config, dtypes). Plus `measurement.runs` real runs whose residuals are measured.",
        "exhaustive": False,
        "samples": [sample(i) for i in (loop_idx[len(loop_idx) // 3], loop_idx[-1], len(cases) // 2)] if loop_idx else [],
        "distribution": {"dispatch_path": paths, "qr_iterations_on_loop_path": iters, "dtype_A/dtype_estimate": dts, "A_kind": akinds,
                         "estimate_kind": ekinds, "outcome": outcomes, "sizes": "1..10 (plus 0x0 and non-square/non-2-D shapes)",
                         "max_iterations": f"0,-1 (5%), 1..3 (40%), 1..{50 if ck.tier == 'thorough' else 8}", "tolerances": TOLS},
        "disagreements": len(bad),
        "components": COMPONENTS,
        "measurement": meas,
        "quantifier_audit": dict(sorted(audit.items())),
        "not_exercised": not_exercised,
    })
    ck.assumptions += [
        "oracle contracts eigh_contract / qr_contract / argsort_contract are Section hypotheses of the theorems; what LAPACK delivers is only measured (coverage.measurement)",
        "value-level tie in binary64; float32/bfloat16 runs tie dtype tags, control flow and exceptions, values at 1e-4 / 5e-2",
        "the estimate has the shape of A; the offload device is not modelled",
    ]
    ck.gen_equiv_verdict()


def replay(obj) -> bool:
    common.assert_repo_imports()
    logging.disable(logging.CRITICAL)
    torch = _torch()
    if obj.get("kind") == "measured-residual":
        import matrix_functions as mf
        from matrix_functions_types import EighEigenvectorConfig, QRConfig
        d = obj["case"]
        A = torch.tensor([[float.fromhex(x) for x in row] for row in d["A"]], dtype=torch.float64).to(tdtype(d["dtype"]))
        if d["path"] == "eigh":
            Q = mf.matrix_eigenvectors(A, None, EighEigenvectorConfig())
        else:
            E = torch.tensor([[float.fromhex(x) for x in row] for row in d["estimate"]], dtype=torch.float64).to(tdtype(d["dtype"]))
            Q = mf.matrix_eigenvectors(A, E, QRConfig(max_iterations=d["max_iterations"], tolerance=d.get("tolerance", 0.0)))
        n = A.shape[0]
        Q64, A64 = Q.double(), A.double()
        print("max|Q^T Q - I| =", float((Q64.T @ Q64 - torch.eye(n, dtype=torch.float64)).abs().max()))
        D = Q64.T @ A64 @ Q64
        print("max|offdiag Q^T A Q| =", float((D - torch.diag(torch.diagonal(D))).abs().max()), "diag =", torch.diagonal(D).tolist())
        print("recorded:", obj.get("quantity"), obj.get("value"))
        return True
    case = obj["case"]
    r = run_impl(case)
    print("implementation now:", {k: v for k, v in r["outcome"].items() if k != "rows"}, "qr calls", len(r["qr_in"]), "eigh calls", len(r["eigh_in"]), "argsort", r["argsort"])
    if r["outcome"]["ok"]:
        for row in r["outcome"]["rows"]:
            print("  ", [float.fromhex(x) for x in row])
    print("recorded:", {k: v for k, v in obj.get("impl", {}).items() if k != "rows"})
    return True
