"""C05 - merging/blocking of parameters and gradients vs the Coq model Blocking.v, plus the
implementation-vs-implementation invariance "blocked run == run on the blocks as separate parameters"."""
from __future__ import annotations

import math
import multiprocessing as mp

from harness import common, gen_targets
from harness.common import Check, coq_bool

META = {
    "property_id": "C05",
    "design_ref": "DESIGN.md §4 C05",
    "technique": "Coq proof (induction over the shape / the list of dimensions; Permutation of storage offsets; lia/nia with div-mod) "
                 "+ exhaustive small-scope correspondence of Distributor blocks evaluated by vm_compute "
                 "+ implementation-vs-implementation invariance runs (blocked vs pre-split)",
    "level_text": "Proved for ALL shapes of positive dims of any order and all thr>=1 on the Gallina model of merge_small_dims / "
                  "multi_dim_split / Distributor._merge_and_block_parameters/_gradients: merge spec (numel, consecutive groups, fused "
                  "groups <= thr, greedy maximality, size-1 dims dropped) and its uniqueness; multi_dim_split = lexicographic boxes; blocks "
                  "tile the parameter's storage exactly once (Permutation / NoDup); every block dim in 1..thr; every block is a narrow of "
                  "the merged contiguous view and enumerates storage in increasing (row-major) order; block count formula; gradient "
                  "blocks = parameter blocks; certified checkers C05_checkb / C05_grad_checkb / update_okb. The model is tied to "
                  "/repo by an exhaustive comparison inside coqc (order 0..4, numel<=64 (quick 32), thr in 1..9 and 1024, merge on/off: "
                  "merged dims, block count, shape/storage offset/strides of every parameter and gradient block, storage identity, and "
                  "the effect of update_params), a gradient-layout stream (gradients whose memory layout differs from the parameter's - permuted storage, "
                  "channels_last, gapped as_strided - carrying their logical indices as values: every gradient block must list exactly view_offsets of the "
                  "model's block; certified values-based checker C05_grad_values_checkb), a parameter-layout stream (the same layouts + a row-padded narrow applied to the "
                  "PARAMETER: blocks must be views of its storage addressing loc(logical indices of the model's blocks), update_params must move exactly those "
                  "elements; a refusal at construction is accepted only where the proved-sound-and-complete predicate Blocking.viewable says no strided view of "
                  "the merged shape exists; a copy is a violation), a multi-call stream (2-4 parameters, presence patterns changing between "
                  "merge_and_block_gradients calls incl. same-count-different-pattern: selector, active parameter blocks and gradient blocks vs the model of the "
                  "current pattern) plus random large shapes for the two utilities. "
                  "Second clause: `C05_blocked_eq_presplit` - in the structural model of step() (Masks.v, generic in the per-block "
                  "computation, instantiated with Optimizer.block_step in OptimizerMasks.v) two layouts whose histories present the same "
                  "per-block gradients give the same block values, states and step counter over any history; on the implementation the "
                  "clause is additionally TESTED blocked-vs-pre-split (real DistributedShampoo runs, bit-exact for same-strided views).",
    "level_note": "Trusted: Coq kernel+vm_compute; the hand-written model (checked against the code only on the enumerated/random "
                  "inputs); torch view/split/detach/storage_offset/stride/_foreach_add_ semantics as observed (the update test ties "
                  "view_offsets to what an in-place add on the views really touches). The invariance part is a test, not a proof.",
    "ready": True,
}

THRS = [1, 2, 3, 4, 5, 6, 7, 8, 9, 1024]


def shapes_upto(max_numel: int, max_order: int):
    out = [()]

    def rec(prefix, prod):
        for d in range(1, max_numel // prod + 1):
            sh = prefix + (d,)
            out.append(sh)
            if len(sh) < max_order:
                rec(sh, prod * d)

    rec((), 1)
    return out


# ----------------------------------------------------------------------------------------------
# implementation drivers (run in forked workers)


def _geo(t, off0):
    return (t.storage_offset() - off0, list(t.shape), list(t.stride()))


def dist_case(args):
    """One Distributor over one parameter.  Everything observed from outside."""
    import torch
    from distributed_shampoo.shampoo_types import MAX_PRECONDITIONER_DIM, PARAMS, USE_MERGE_DIMS
    from distributed_shampoo.utils.shampoo_distributor import Distributor

    shape, thr, merge = args[:3]
    dtname, as_param = args[3] if len(args) > 3 else ("float32", False)     # variant: storage dtype, nn.Parameter (requires_grad=True)
    try:
        dt = getattr(torch, dtname)
        n = math.prod(shape)
        po = (thr + len(shape) + int(merge)) % 3           # the parameter itself starts at a non-zero storage offset
        go = (po + 1) % 3
        pbase = torch.zeros(n + po + 2, dtype=dt)
        gbase = torch.zeros(n + go + 2, dtype=dt)
        p = pbase[po:po + n].view(shape)
        if as_param:
            p = torch.nn.Parameter(p)                      # shares pbase's storage; blocks must come out detached (requires_grad False)
            assert p.requires_grad and p.untyped_storage().data_ptr() == pbase.untyped_storage().data_ptr()
        p.grad = gbase[go:go + n].view(shape)
        d = Distributor({PARAMS: [p], MAX_PRECONDITIONER_DIM: thr, USE_MERGE_DIMS: merge})
        pb = d.local_blocked_params
        ok_p = all(b.untyped_storage().data_ptr() == p.untyped_storage().data_ptr() and not b.requires_grad for b in pb)
        gb = d.merge_and_block_gradients()
        ok_g = all(b.untyped_storage().data_ptr() == p.grad.untyped_storage().data_ptr() for b in gb)
        merged = list(d._global_merged_dims_list[0])
        nb = int(d._global_num_blocks_per_param[0])
        # update_params: block k receives base_k + 0,1,2,... in its own row-major order
        mb = d.local_masked_blocked_params
        step = 1000 if dtname in ("float32", "float64") else 16      # half-precision storage holds integers exactly only up to 256 (bfloat16)
        bases = [step * (k + 1) for k in range(len(mb))]
        if n <= 4096 and (step == 1000 or (len(mb) <= 14 and all(b.numel() <= 16 for b in mb))):
            dirs = tuple((torch.arange(b.numel(), dtype=torch.float32).view(b.shape) + base).to(dt) for b, base in zip(mb, bases))
            d.update_params(dirs)
            storage = [int(x) for x in p.detach().reshape(-1).tolist()]
        else:
            storage = None                                 # too large for a literal / not exactly representable: update not observed
        ok_u = bool((pbase[:po] == 0).all()) and bool((pbase[po + n:] == 0).all()) and len(mb) == len(pb)
        ok_p = ok_p and all(b.dtype == dt for b in pb) and all(b.dtype == dt for b in gb)
        return {"merged": merged, "nb": nb, "pb": [_geo(b, po) for b in pb], "gb": [_geo(b, go) for b in gb],
                "ok_p": bool(ok_p), "ok_g": bool(ok_g), "bases": bases, "storage": storage, "ok_u": ok_u}
    except Exception as ex:  # noqa
        return {"exc": type(ex).__name__ + ": " + str(ex)[:200]}


def grad_layouts(shape):
    """Non-default memory layouts for a gradient of this logical shape: permuted storage (reversed dims, last two
    swapped, channels_last for order 4) and a gapped as_strided layout (doubled strides, storage offset 3)."""
    k = len(shape)
    out = [("perm", tuple(reversed(range(k))))]
    if k >= 3:
        out.append(("perm", tuple(range(k - 2)) + (k - 1, k - 2)))
        out.append(("perm", (1, 0) + tuple(range(2, k))))
    if k == 4:
        out.append(("perm", (0, 2, 3, 1)))       # memory order N,H,W,C = torch.channels_last
    out.append(("gap", 3))
    return out


def make_grad(shape, layout):
    """A tensor of this shape whose element at logical row-major position i has the value i, stored with `layout`."""
    import torch
    n = math.prod(shape)
    index = torch.arange(n, dtype=torch.float32).reshape(shape)
    if layout[0] == "perm":
        perm = list(layout[1])
        inv = [perm.index(i) for i in range(len(perm))]
        G = index.permute(perm).contiguous().permute(inv)
    else:
        cs = [math.prod(shape[i + 1:]) for i in range(len(shape))]
        base = torch.full((2 * n + 8,), -1.0)
        G = base.as_strided(shape, [2 * c for c in cs], layout[1])
        G.copy_(index)
    assert tuple(G.shape) == tuple(shape) and bool(torch.equal(G, index))
    return G


def gradlayout_case(args):
    """Contiguous parameter, gradient with a different memory layout carrying its logical indices as values."""
    import torch
    from distributed_shampoo.shampoo_types import MAX_PRECONDITIONER_DIM, PARAMS, USE_MERGE_DIMS
    from distributed_shampoo.utils.shampoo_distributor import Distributor

    shape, thr, merge, layout = args
    try:
        p = torch.zeros(shape)
        G = make_grad(shape, layout)
        p.grad = G
        d = Distributor({PARAMS: [p], MAX_PRECONDITIONER_DIM: thr, USE_MERGE_DIMS: merge})
        merged = list(d._global_merged_dims_list[0])
        pb = [_geo(b, 0) for b in d.local_blocked_params]
        try:
            gb = d.merge_and_block_gradients()
        except RuntimeError as ex:       # grad.view(merged_dims) on a layout that cannot be viewed
            return {"rejected": str(ex)[:120], "merged": merged, "pb": pb, "gstride": list(G.stride())}
        ok_g = all(b.untyped_storage().data_ptr() == G.untyped_storage().data_ptr() for b in gb)
        return {"merged": merged, "pb": pb, "ok_g": bool(ok_g), "gstride": list(G.stride()),
                "g": [(list(b.shape), [int(x) for x in b.reshape(-1).tolist()]) for b in gb]}
    except Exception as ex:  # noqa
        return {"exc": type(ex).__name__ + ": " + str(ex)[:200]}


def param_layouts(shape):
    """Layouts of the gradient-layout stream plus a row-padded one (a narrow of a wider buffer)."""
    return grad_layouts(shape) + [("pad", 1)]


def make_strided(shape, layout, values, fill=0.0):
    """A tensor with the given logical values stored with `layout`; returns it with the flat view of its whole buffer."""
    import torch
    n = math.prod(shape)
    if layout[0] == "perm":
        perm = list(layout[1])
        inv = [perm.index(i) for i in range(len(perm))]
        t = values.permute(perm).contiguous().permute(inv)
        base = torch.as_strided(t, (n,), (1,), 0)
    elif layout[0] == "gap":
        cs = [math.prod(shape[i + 1:]) for i in range(len(shape))]
        base = torch.full((2 * n + 8,), fill)
        t = base.as_strided(shape, [2 * c for c in cs], layout[1])
        t.copy_(values)
    else:   # pad: last dim is a narrow of a wider row
        wide = tuple(shape[:-1]) + (shape[-1] + layout[1],)
        big = torch.full(wide, fill)
        t = big[..., :shape[-1]]
        t.copy_(values)
        base = big.view(-1)
    assert tuple(t.shape) == tuple(shape) and bool(torch.equal(t, values)) and t.untyped_storage().data_ptr() == base.untyped_storage().data_ptr()
    return t, base


def paramlayout_case(args):
    """Parameter with a non-default memory layout; gradient contiguous or stored like the parameter."""
    import torch
    from distributed_shampoo.shampoo_types import MAX_PRECONDITIONER_DIM, PARAMS, USE_MERGE_DIMS
    from distributed_shampoo.utils.shampoo_distributor import Distributor

    shape, thr, merge, layout, gvar = args
    try:
        n = math.prod(shape)
        index = torch.arange(n, dtype=torch.float32).reshape(shape)
        p, pbase = make_strided(shape, layout, torch.zeros(shape))
        po = p.storage_offset()
        pstr = list(p.stride())
        p.grad = index.clone() if gvar == "contig" else make_strided(shape, layout, index, fill=-1.0)[0]
        try:
            d = Distributor({PARAMS: [p], MAX_PRECONDITIONER_DIM: thr, USE_MERGE_DIMS: merge})
        except RuntimeError as ex:        # param.view(merged_dims): "view size is not compatible with input tensor's size and stride"
            return {"refused": str(ex)[:120], "pstr": pstr}
        merged = list(d._global_merged_dims_list[0])
        pb = d.local_blocked_params
        ok_p = all(b.untyped_storage().data_ptr() == p.untyped_storage().data_ptr() and not b.requires_grad for b in pb)
        geo = [_geo(b, po) for b in pb]
        gb = d.merge_and_block_gradients()
        g = [(list(b.shape), [int(x) for x in b.reshape(-1).tolist()]) for b in gb]
        mb = d.local_masked_blocked_params
        bases = [1000 * (k + 1) for k in range(len(mb))]
        d.update_params(tuple(torch.arange(b.numel(), dtype=torch.float32).view(b.shape) + base for b, base in zip(mb, bases)))
        lvals = [int(x) for x in p.reshape(-1).tolist()]
        span = 1 + sum((sz - 1) * st for sz, st in zip(shape, pstr))
        raw = [int(x) for x in torch.as_strided(p, (span,), (1,), po).tolist()]
        ok_u = len(mb) == len(pb) and float(pbase.sum()) == float(p.sum())       # nothing outside the parameter's elements moved
        return {"merged": merged, "pb": geo, "ok_p": bool(ok_p), "pstr": pstr, "bases": bases, "lvals": lvals, "raw": raw, "ok_u": bool(ok_u), "g": g}
    except Exception as ex:  # noqa
        return {"exc": type(ex).__name__ + ": " + str(ex)[:200]}


def multicall_case(args):
    """Several parameters in one Distributor, one merge_and_block_gradients call per presence pattern.
    Gradient i carries 1000*i + logical index; observed parameter blocks are shifted by 1000 * (index of the
    parameter whose storage they live in), so block k of the gradients must carry view_offsets of block k of
    local_masked_blocked_params."""
    import torch
    from distributed_shampoo.shampoo_types import MAX_PRECONDITIONER_DIM, PARAMS, USE_MERGE_DIMS
    from distributed_shampoo.utils.shampoo_distributor import Distributor

    shapes, thr, merge, seq = args
    try:
        ps = [torch.zeros(sh) for sh in shapes]
        owner = {p.untyped_storage().data_ptr(): i for i, p in enumerate(ps)}
        d = Distributor({PARAMS: ps, MAX_PRECONDITIONER_DIM: thr, USE_MERGE_DIMS: merge})
        out = []
        for pat in seq:
            for i, (p, on) in enumerate(zip(ps, pat)):
                G = (torch.arange(p.numel(), dtype=torch.float32).reshape(p.shape) + 1000 * i) if on else None
                if on and p.dim() >= 2 and len(out) % 2 == 1:      # every second call: same values, transposed storage (a fresh layout per call)
                    perm = list(reversed(range(p.dim())))
                    G = G.permute(perm).contiguous().permute(perm)
                p.grad = G
            try:
                gb = d.merge_and_block_gradients()
                mb = d.local_masked_blocked_params
                obs_p = []
                for b in mb:
                    i = owner.get(b.untyped_storage().data_ptr(), -7)      # unknown storage: offsets land below zero
                    obs_p.append((1000 * i + b.storage_offset(), list(b.shape), list(b.stride())))
                out.append({"sel": [bool(x) for x in d.local_grad_selector], "p": obs_p,
                            "g": [(list(b.shape), [int(x) for x in b.reshape(-1).tolist()]) for b in gb]})
            except Exception as ex:  # noqa
                out.append({"exc": type(ex).__name__ + ": " + str(ex)[:200]})
        return out
    except Exception as ex:  # noqa
        return [{"exc": type(ex).__name__ + ": " + str(ex)[:200]} for _ in seq]


def _ref_offsets(geo):
    """Row-major enumeration of the offsets a (offset, sizes, strides) view addresses - used for message texts only."""
    off, sizes, strides = geo
    out = [off]
    for n, st in zip(sizes, strides):
        out = [o + i * st for o in out for i in range(n)]
    return out


def merge_case(args):
    from distributed_shampoo.utils.shampoo_utils import merge_small_dims
    shape, thr = args
    try:
        return {"out": list(merge_small_dims(shape, thr))}
    except Exception as ex:  # noqa
        return {"exc": type(ex).__name__ + ": " + str(ex)[:200]}


def split_case(args):
    import torch
    from distributed_shampoo.utils.shampoo_utils import multi_dim_split
    shape, b = args
    try:
        t = torch.empty(shape)
        out = multi_dim_split(t, b)
        ok = all(x.untyped_storage().data_ptr() == t.untyped_storage().data_ptr() for x in out)
        return {"views": [_geo(x, 0) for x in out], "ok": bool(ok)}
    except Exception as ex:  # noqa
        return {"exc": type(ex).__name__ + ": " + str(ex)[:200]}


def inv_configs():
    from distributed_shampoo import (AdaGradGraftingConfig, AdamGraftingConfig, DefaultEigenvalueCorrectedShampooConfig,
                                     DefaultSOAPConfig, RMSpropGraftingConfig, SGDGraftingConfig, ShampooPreconditionerConfig)
    return [
        ("shampoo+adagrad,momentum,decoupled-wd", dict(lr=0.01, betas=(0.9, 0.999), momentum=0.5, weight_decay=0.01, precondition_frequency=1,
                                                       start_preconditioning_step=2, grafting_config=AdaGradGraftingConfig(epsilon=1e-8))),
        ("shampoo+adam,freq2", dict(lr=0.02, betas=(0.9, 0.99), precondition_frequency=2, start_preconditioning_step=2,
                                    grafting_config=AdamGraftingConfig(beta2=0.99, epsilon=1e-8))),
        ("shampoo+sgd,nesterov,coupled-wd", dict(lr=0.02, betas=(0.0, 1.0), momentum=0.9, use_nesterov=True, weight_decay=0.1,
                                                 use_decoupled_weight_decay=False, precondition_frequency=1, start_preconditioning_step=1,
                                                 grafting_config=SGDGraftingConfig())),
        ("soap(qr),wd", dict(lr=0.01, betas=(0.9, 0.95), precondition_frequency=2, start_preconditioning_step=2,
                             preconditioner_config=DefaultSOAPConfig, weight_decay=0.01)),
        ("eigenvalue-corrected(eigh),momentum", dict(lr=0.01, betas=(0.9, 0.95), precondition_frequency=1, start_preconditioning_step=2,
                                                     preconditioner_config=DefaultEigenvalueCorrectedShampooConfig, momentum=0.3)),
        ("shampoo+rmsprop,no-bias-correction,inv_root_override2", dict(lr=0.01, betas=(0.5, 0.9), precondition_frequency=1, start_preconditioning_step=1,
                                                    grafting_config=RMSpropGraftingConfig(beta2=0.9, epsilon=1e-8), use_bias_correction=False, inv_root_override=2)),
        ("shampoo+adam,ignored_dims[0]", dict(lr=0.01, betas=(0.9, 0.99), precondition_frequency=1, start_preconditioning_step=1,
                                              preconditioner_config=ShampooPreconditionerConfig(ignored_dims=[0]),
                                              grafting_config=AdamGraftingConfig(beta2=0.99, epsilon=1e-8))),
        ("adam-grafting-only(never preconditions),beta3,dampening", dict(lr=0.01, betas=(0.9, 0.99), beta3=0.8, momentum=0.5, dampening=0.3, precondition_frequency=1,
                                                                         start_preconditioning_step=1000, grafting_config=AdamGraftingConfig(beta2=0.99, epsilon=1e-8))),
        ("shampoo,no-grafting", dict(lr=0.01, betas=(0.9, 1.0), precondition_frequency=1, start_preconditioning_step=1, grafting_config=None)),
    ]


INV_TOL = 1e-12


INV_KINDS = ("normal", "zero_block", "tiny", "huge", "absent_step", "two_alternating", "two_groups", "layout_grad")


def inv_case(args):
    """Blocked run A vs the same blocks as separate parameters: B1 = same-strided views of a clone of the
    parameter (same kernels: bit-exact expected), B2 = contiguous clones (tolerance 1e-12).  Implementation vs implementation.
    args = (config, shape, b, merge, eps, steps, seed[, kind, param dtype, preconditioner dtype]); kinds:
      zero_block      the gradient is exactly zero on block 0 of the tensor at every step (present, not None)
      tiny / huge     gradient magnitude 1e-5 / 1e4
      absent_step     no gradient at all at step 3
      two_alternating two equal-shaped tensors in the group whose gradients alternate: w1, w2, w1, both, w2, ...
      two_groups      a second tensor in a second parameter group with another max_preconditioner_dim
      layout_grad     the gradient of the blocked tensor is stored transposed (reversed dims)"""
    import torch
    from distributed_shampoo import DistributedShampoo
    from distributed_shampoo.shampoo_types import DISTRIBUTOR

    import logging
    logging.disable(logging.WARNING)      # the optimizer logs every change of the gradient selector
    ci, shape, b, merge, eps, steps, seed = args[:7]
    kind, pdt, qdt = tuple(args[7:10]) if len(args) >= 10 else ("normal", "float64", "float64")
    try:
        name, kw = inv_configs()[ci]
        pdtype, qdtype = getattr(torch, pdt), getattr(torch, qdt)
        kw = dict(kw, epsilon=eps, preconditioner_dtype=qdtype)
        g = torch.Generator().manual_seed(seed)
        # tensors: (shape, group); groups: max_preconditioner_dim per group
        if kind == "two_alternating":
            tensors, gdims = [(shape, 0), (shape, 0)], [b]
        elif kind == "two_groups":
            tensors, gdims = [(shape, 0), (tuple(reversed(shape)), 1)], [b, b + 1]
        else:
            tensors, gdims = [(shape, 0)], [b]
        scale = {"tiny": 1e-5, "huge": 1e4}.get(kind, 1.0)
        W0 = [torch.randn(sh, dtype=torch.float64, generator=g).to(pdtype) for sh, _ in tensors]
        grads = [[(torch.randn(sh, dtype=torch.float64, generator=g) * scale).to(pdtype) for sh, _ in tensors] for _ in range(steps)]

        def present(t, i):
            if kind == "absent_step" and t == 2:
                return False
            if kind == "two_alternating":
                return ((True, False), (False, True), (True, False), (True, True), (False, True), (True, False))[t % 6][i]
            return True

        def groups_of(params_of_tensor, big):
            return [{"params": [q for (sh, gi), qs in zip(tensors, params_of_tensor) if gi == gidx for q in qs],
                     "max_preconditioner_dim": (10 ** 6 if big else gd)} for gidx, gd in enumerate(gdims)]

        pA = [w.clone() for w in W0]
        optA = DistributedShampoo(groups_of([[q] for q in pA], False), use_merge_dims=merge, **kw)
        owner = {q.untyped_storage().data_ptr(): i for i, q in enumerate(pA)}
        blocksA = [[] for _ in tensors]
        for gidx in range(len(gdims)):
            for x in optA._per_group_state_lists[gidx][DISTRIBUTOR].local_blocked_params:
                blocksA[owner[x.untyped_storage().data_ptr()]].append(x)
        geo = [[(tuple(x.shape), tuple(x.stride()), x.storage_offset()) for x in bl] for bl in blocksA]
        if kind == "zero_block":
            for G in grads:
                sh, st, off = geo[0][0]
                torch.as_strided(G[0], sh, st, off).zero_()
        W1 = [w.clone() for w in W0]
        pB1 = [[torch.as_strided(w1, sh, st, off) for sh, st, off in ge] for w1, ge in zip(W1, geo)]
        pB2 = [[x.clone().contiguous() for x in bl] for bl in blocksA]
        optB1 = DistributedShampoo(groups_of(pB1, True), use_merge_dims=False, **kw)
        optB2 = DistributedShampoo(groups_of(pB2, True), use_merge_dims=False, **kw)
        for t, Gs in enumerate(grads):
            for i, (q, G) in enumerate(zip(pA, Gs)):
                if not present(t, i):
                    q.grad = None
                elif kind == "layout_grad" and G.dim() >= 2:
                    perm = list(reversed(range(G.dim())))
                    q.grad = G.permute(perm).contiguous().permute(perm)     # same values, transposed storage
                else:
                    q.grad = G.clone()
            optA.step()
            for i, G in enumerate(Gs):
                G1 = G.clone()
                for q1, q2, (sh, st, off) in zip(pB1[i], pB2[i], geo[i]):
                    q1.grad = torch.as_strided(G1, sh, st, off) if present(t, i) else None
                    q2.grad = torch.as_strided(G, sh, st, off).clone() if present(t, i) else None
            optB1.step()
            optB2.step()
        def diff(x, q):
            """max |x-q| over finite entries; inf when the non-finite entries (overflow of the storage dtype) are not the same on both sides"""
            x, q = x.double(), q.double()
            fx = torch.isfinite(x)
            if not torch.equal(fx, torch.isfinite(q)) or not torch.equal(torch.nan_to_num(x[~fx], nan=0.0, posinf=1.0, neginf=-1.0),
                                                                        torch.nan_to_num(q[~fx], nan=0.0, posinf=1.0, neginf=-1.0)):
                return float("inf")
            return float((x[fx] - q[fx]).abs().max()) if bool(fx.any()) else 0.0

        d1 = d2 = 0.0
        for i in range(len(tensors)):
            for x, q1, q2 in zip(blocksA[i], pB1[i], pB2[i]):
                if x.shape != q1.shape or x.shape != q2.shape:
                    return {"exc": "shape mismatch"}
                d1 = max(d1, diff(x, q1))
                d2 = max(d2, diff(x, q2))
        finite = all(bool(torch.isfinite(q).all()) for q in pA)
        moved = [float((q.double() - w.double()).abs().max()) for q, w in zip(pA, W0)]
        return {"d1": d1, "d2": d2, "nblocks": sum(len(ge) for ge in geo), "moved": moved, "finite": finite, "cfg": name}
    except Exception as ex:  # noqa
        return {"exc": type(ex).__name__ + ": " + str(ex)[:300]}


# ----------------------------------------------------------------------------------------------
# Coq literals


def z(n: int) -> str:
    return f"({n})" if n < 0 else str(n)


def zs(l) -> str:
    return "[" + "; ".join(z(int(x)) for x in l) + "]"


def views(vs) -> str:
    return "[" + "; ".join(f"mkv {z(o)} {zs(sh)} {zs(st)}" for o, sh, st in vs) + "]"


def gvals(g) -> str:
    return "[" + "; ".join(f"({zs(sh)}, {zs(v)})" for sh, v in g) + "]"


HEADER = """From Coq Require Import ZArith List String.
From Shampoo Require Import Show SplitRecovery Blocking BlockingProofs BlockingChecker.
Import ListNotations. Open Scope Z_scope.
"""


def eval_items(ck: Check, prefix: str, items: list[str], per_file: int = 400) -> str:
    if not items:
        return ""
    srcs = {}
    for fi, chunk in enumerate(common.chunks(items, per_file)):
        srcs[f"{prefix}_{fi:04d}"] = HEADER + "Definition results : list bool := [\n" + ";\n".join(chunk) + "].\nEval vm_compute in show_bools results.\n"
    out = ck.eval_coq(srcs)
    flat = "".join(out[f"{prefix}_{fi:04d}"][0] for fi in range(len(srcs)))
    assert len(flat) == len(items), (prefix, len(flat), len(items))
    return flat


# ----------------------------------------------------------------------------------------------


def run(ck: Check) -> None:
    common.assert_repo_imports()
    ck.coq_props()
    gen_targets.run(ck)          # translator tie: Gallina regenerated from the source + coq/gen/EquivC05.v
    thorough = ck.tier == "thorough"
    rng = ck.rng

    # ---- (a1) exhaustive Distributor cases ---------------------------------------------------
    maxn = 64 if thorough else 32
    shapes = shapes_upto(maxn, 4)
    dwork = [(sh, thr, mg) for sh in shapes for thr in THRS for mg in (True, False)]
    dvar = [("float32", False)] * len(dwork)
    dclass = ["exhaustive_order0-4"] * len(dwork)

    def add_d(sh, thr, mg, var, cls):
        dwork.append((tuple(sh), thr, mg)); dvar.append(var); dclass.append(cls)

    # quantifier audit: input classes the exhaustive sweep does not contain
    small = [sh for sh in shapes_upto(8, 4) if len(sh) >= 1]
    for sh in small:                                       # storage dtypes other than float32; nn.Parameter (requires_grad=True)
        for thr in (2, 3, 1024):
            for mg in (True, False):
                for dtn in ("float16", "bfloat16", "float64"):
                    add_d(sh, thr, mg, (dtn, False), "dtype_" + dtn)
                add_d(sh, thr, mg, ("float32", True), "nn_Parameter_requires_grad")
    for _ in range(300 if thorough else 60):               # order 5..6 (the theorems hold for any order; the property names 0..4)
        sh = tuple(rng.choice((1, 2, 2, 3)) for _ in range(rng.choice((5, 6))))
        if math.prod(sh) <= 72:
            add_d(sh, rng.choice((1, 2, 3, 4, 6, 1024)), rng.random() < 0.5, ("float32", rng.random() < 0.3), "order_5_6")
    for sh in ((), (1,), (5,), (3, 4), (2, 1, 3), (4, 2, 2, 3)):   # max_preconditioner_dim at the int32 / int64 boundaries
        for thr in (2 ** 31 - 1, 2 ** 31, 2 ** 63 - 1):
            for mg in (True, False):
                add_d(sh, thr, mg, ("float32", False), "huge_max_preconditioner_dim")
    nbig = 0
    while nbig < (400 if thorough else 48):                # large parameters through a real Distributor: sizes that are no multiples of the block size
        sh = tuple(rng.choice((1, 3, 17, 63, 64, 65, 100, 129, 257, 1000)) for _ in range(rng.randint(1, 4)))
        thr = rng.choice((7, 16, 64, 100, 128, 1024, 8192))
        if math.prod(sh) > 300000 or math.prod((x + thr - 1) // thr for x in sh) > 200:
            continue
        add_d(sh, thr, rng.random() < 0.5, ("float32", rng.random() < 0.3), "large_parameter")
        nbig += 1

    # ---- (a2) random large shapes for the two utilities --------------------------------------
    nmerge = 20000 if thorough else 2000
    mwork = []
    for _ in range(nmerge):
        order = rng.randint(0, 7)
        sh = tuple(rng.choice((1, 1, 2, 3, 4, 5, 7, 8, 16, 31, 64, 100, 1024, 4099)) for _ in range(order))
        sq = [d for d in sh if d != 1]
        kind = rng.random()
        if kind < 0.5 and sq:      # thresholds at / next to a product of consecutive dims: the boundary of `<=`
            i = rng.randrange(len(sq))
            j = rng.randint(i, len(sq) - 1)
            thr = max(1, math.prod(sq[i:j + 1]) + rng.choice((-1, 0, 0, 1)))
        else:
            thr = rng.choice((1, 2, 3, 6, 8, 10, 64, 1000, 1024, 8192, 10 ** 6))
        mwork.append((sh, thr))
    nsplit = 3000 if thorough else 400
    swork = []
    while len(swork) < nsplit:
        order = rng.randint(0, 5)
        sh = tuple(rng.choice((1, 2, 3, 5, 7, 8, 16, 31, 33, 64, 100, 257)) for _ in range(order))
        if math.prod(sh) > 300000:
            continue
        b = rng.choice((1, 2, 3, 4, 5, 7, 8, 16, 32, 33, 64, 100, 256, 1024))
        if math.prod((d + b - 1) // b for d in sh) > 400:
            continue
        swork.append((sh, b))

    # ---- (b) invariance runs -----------------------------------------------------------------
    ncfg = len(inv_configs())
    nshapes = 160 if thorough else 12
    iwork = []
    while len(iwork) < nshapes * ncfg:
        order = rng.randint(1, 4)
        sh = tuple(rng.choice((1, 2, 3, 4, 5, 7, 9)) for _ in range(order))
        b = rng.choice((1, 2, 3, 4, 5, 8))
        if math.prod(sh) > 400 or math.prod((d + b - 1) // b for d in sh) > 64:
            continue
        mg = rng.random() < 0.5
        for ci in range(ncfg):
            eps = rng.choice((1e-12, 1e-8, 1e-6))
            iwork.append((ci, sh, b, mg, eps, rng.choice((5, 6)), rng.randrange(10 ** 6)))
    # quantifier audit ("all optimizer configurations and gradient sequences"): gradient-sequence classes and dtype pairings
    naudit = 40 if thorough else 5
    for kind in INV_KINDS[1:]:
        k = 0
        while k < naudit:
            order = rng.randint(2 if kind in ("layout_grad", "two_groups") else 1, 3)
            sh = tuple(rng.choice((2, 3, 4, 5, 7)) for _ in range(order))
            b = rng.choice((2, 3, 4))
            if math.prod(sh) > 200 or math.prod((d + b - 1) // b for d in sh) > 40 or (kind == "zero_block" and math.prod((d + b - 1) // b for d in sh) < 2):
                continue
            # a transposed-storage gradient goes through other kernels than the same-strided block gradients: keep the conditioning benign there
            iwork.append((rng.randrange(ncfg), sh, b, rng.random() < 0.5, 1e-6 if kind == "layout_grad" else rng.choice((1e-12, 1e-8)), 6, rng.randrange(10 ** 6), kind, "float64", "float64"))
            k += 1
    # a float16 run whose result overflows the storage dtype (found by the thorough tier): both sides must show the same non-finite pattern
    iwork.append((1, (2, 4, 5), 2, True, 1e-08, 5, 962590, "normal", "float16", "float32"))
    for pdt, qdt in (("float32", "float32"), ("float32", "float64"), ("bfloat16", "float32"), ("float16", "float32")):
        for k in range(naudit):
            sh = tuple(rng.choice((2, 3, 4, 5, 7)) for _ in range(rng.randint(1, 3)))
            ci = rng.randrange(ncfg) if pdt == "float32" else rng.choice((0, 1, 2, 5))     # half precision: eigen-based Shampoo configs only (no half-precision QR/eigh paths)
            iwork.append((ci, sh, rng.choice((2, 3, 4)), rng.random() < 0.5, 1e-8, 5, rng.randrange(10 ** 6), "normal", pdt, qdt))

    # ---- (a3) gradient-layout stream: gradients whose memory layout differs from the parameter's ---
    gmaxn = 36 if thorough else 24
    gthrs = (1, 2, 3, 4, 5, 7, 1024) if thorough else (2, 3, 5, 1024)
    gwork = [(sh, thr, mg, lay) for sh in shapes_upto(gmaxn, 4) if 2 <= len(sh) <= 4
             for thr in gthrs for mg in (True, False) for lay in grad_layouts(sh)]

    # ---- (a4) parameter-layout stream: the PARAMETER has a non-default memory layout ----------------
    pthrs = (1, 2, 3, 5, 7, 1024) if thorough else (2, 3, 1024)
    pmaxn = gmaxn if thorough else 16
    pwork = []
    for sh in shapes_upto(pmaxn, 4):
        if 2 <= len(sh) <= 4:
            for thr in pthrs:
                for mg in (True, False):
                    for lay in param_layouts(sh):
                        pwork.append((sh, thr, mg, lay, ("contig", "same")[len(pwork) % 2]))

    # ---- (a5) multi-call stream: several parameters, presence patterns changing between calls --------
    pool_shapes = ((4, 6), (6, 4), (4, 6), (3,), (5,), (2, 3), (7,), (2, 2, 2), (4,), (1, 5), (9,), (3, 3))
    qwork = []
    for sh, thr in (((4, 6), 4), ((4, 6), 3), ((5,), 2), ((2, 3), 1024), ((3, 3), 2)):     # two equal parameters: every sequence of 3 patterns
        pats = [(a, b) for a in (True, False) for b in (True, False)]
        for s0 in pats:
            for s1 in pats:
                for s2 in pats:
                    qwork.append(((sh, sh), thr, True, (s0, s1, s2)))
    for _ in range(1500 if thorough else 150):
        npar = rng.randint(2, 4)
        shs = [rng.choice(pool_shapes) for _ in range(npar)]
        if rng.random() < 0.6:
            shs[rng.randrange(npar)] = shs[0]          # make equal block counts likely
        seq = []
        for _ in range(rng.randint(3, 6)):
            if seq and rng.random() < 0.4:             # rotate the previous pattern: same count where shapes are equal, different parameters
                k = rng.randint(1, npar - 1)
                seq.append(tuple(seq[-1][k:] + seq[-1][:k]))
            else:
                seq.append(tuple(rng.random() < 0.5 for _ in range(npar)))
        qwork.append((tuple(shs), rng.choice((2, 3, 4, 1024)), rng.random() < 0.7, tuple(seq)))

    with mp.get_context("fork").Pool(16) as pool:
        ires_async = pool.map_async(inv_case, iwork, chunksize=4)
        pres = pool.map(paramlayout_case, pwork, chunksize=64)
        qres = pool.map(multicall_case, qwork, chunksize=8)
        dres = pool.map(dist_case, [w + (v,) for w, v in zip(dwork, dvar)], chunksize=64)
        gres = pool.map(gradlayout_case, gwork, chunksize=64)
        mres = pool.map(merge_case, mwork, chunksize=256)
        sres = pool.map(split_case, swork, chunksize=16)
        ires = ires_async.get()

    # ---- model vs implementation, inside coqc -----------------------------------------------
    def sh_thr_mg(w):
        sh, thr, mg = w
        return f"{zs(sh)} {thr} {coq_bool(mg)}"

    ditems = []
    for w, r in zip(dwork, dres):
        if "exc" in r:
            ditems += ["false", "false"]
            continue
        if r["gb"] == r["pb"]:    # same text: bind it once (halves the size of the case files)
            ditems.append(f"andb {coq_bool(r['ok_p'])} (let pb := {views(r['pb'])} in agree_distributor {sh_thr_mg(w)} {zs(r['merged'])} {r['nb']} pb pb)")
        else:
            ditems.append(f"andb {coq_bool(r['ok_p'])} (agree_distributor {sh_thr_mg(w)} {zs(r['merged'])} {r['nb']} {views(r['pb'])} {views(r['gb'])})")
        ditems.append(coq_bool(r["ok_u"]) if r["storage"] is None else f"andb {coq_bool(r['ok_u'])} (agree_update {sh_thr_mg(w)} {zs(r['bases'])} {zs(r['storage'])})")
    mitems = ["false" if "exc" in r else f"agree_merge {zs(sh)} {thr} {zs(r['out'])}" for (sh, thr), r in zip(mwork, mres)]
    sitems = ["false" if "exc" in r else f"andb {coq_bool(r['ok'])} (agree_split {zs(sh)} {b} {views(r['views'])})" for (sh, b), r in zip(swork, sres)]
    gitems = []
    for w, r in zip(gwork, gres):
        if "exc" in r:
            gitems.append("false")
        elif "rejected" in r:       # since the F13 repair (reshape instead of view) no layout may be refused: a refusal covers nothing
            gitems.append("false")
        else:                       # C05 asks for the index sets only; whether a gradient block aliases the gradient's storage is measured, not judged
            gitems.append(f"(agree_grad_values {sh_thr_mg(w[:3])} {zs(r['merged'])} {gvals(r['g'])})")
    pitems = []
    for w, r in zip(pwork, pres):
        if "exc" in r:
            pitems += ["false", "false", "false"]
        elif "refused" in r:        # accepted only where no strided view of the merged shape exists for this layout
            pitems += [f"negb (viewable_layout {zs(w[0])} {zs(r['pstr'])} {w[1]} {coq_bool(w[2])})", "true", "true"]
        else:
            pitems.append(f"andb {coq_bool(r['ok_p'])} (agree_param_layout {zs(w[0])} {zs(r['pstr'])} {w[1]} {coq_bool(w[2])} {zs(r['merged'])} {views(r['pb'])})")
            pitems.append(f"andb {coq_bool(r['ok_u'])} (agree_update {sh_thr_mg(w[:3])} {zs(r['bases'])} {zs(r['lvals'])})")
            pitems.append(f"(agree_grad_values {sh_thr_mg(w[:3])} {zs(r['merged'])} {gvals(r['g'])})")
    qitems, qmap = [], []
    for qi, (w, rs) in enumerate(zip(qwork, qres)):
        shl = "[" + "; ".join(zs(sh) for sh in w[0]) + "]"
        for ci, (pat, r) in enumerate(zip(w[3], rs)):
            qmap.append((qi, ci))
            if "exc" in r:
                qitems.append("false")
            else:
                qitems.append(f"agree_multi {shl} {w[1]} {coq_bool(w[2])} [{'; '.join(map(coq_bool, pat))}] [{'; '.join(map(coq_bool, r['sel']))}] {views(r['p'])} {gvals(r['g'])}")
    # one coqc batch for all streams (better packing over the 16 workers than one batch per stream)
    streams = {"c05_d": (ditems, 400), "c05_p": (pitems, 600), "c05_q": (qitems, 300), "c05_g": (gitems, 600), "c05_m": (mitems, 1500), "c05_s": (sitems, 100)}
    srcs, nfiles = {}, {}
    for prefix, (items, per_file) in streams.items():
        chunks_ = list(common.chunks(items, per_file)) if items else []
        nfiles[prefix] = len(chunks_)
        for fi, chunk in enumerate(chunks_):
            srcs[f"{prefix}_{fi:04d}"] = HEADER + "Definition results : list bool := [\n" + ";\n".join(chunk) + "].\nEval vm_compute in show_bools results.\n"
    out_all = ck.eval_coq(srcs)
    flats = {prefix: "".join(out_all[f"{prefix}_{fi:04d}"][0] for fi in range(nfiles[prefix])) for prefix in streams}
    for prefix, (items, _) in streams.items():
        assert len(flats[prefix]) == len(items), (prefix, len(flats[prefix]), len(items))
    dflat, pflat, qflat, gflat, mflat, sflat = (flats[k] for k in ("c05_d", "c05_p", "c05_q", "c05_g", "c05_m", "c05_s"))

    bad_d = [i for i in range(len(dwork)) if dflat[2 * i] != "T"]
    bad_u = [i for i in range(len(dwork)) if dflat[2 * i] == "T" and dflat[2 * i + 1] != "T"]
    bad_m = [i for i in range(len(mwork)) if mflat[i] != "T"]
    bad_s = [i for i in range(len(swork)) if sflat[i] != "T"]
    bad_g = [i for i in range(len(gwork)) if gflat[i] != "T"]
    bad_p = [i for i in range(len(pwork)) if pflat[3 * i:3 * i + 3] != "TTT"]
    bad_q = [j for j in range(len(qitems)) if qflat[j] != "T"]

    transfer = ["C05_blocks_tile", "C05_block_dims_le", "C05_blocks_row_major", "C05_num_blocks_formula",
                "C05_grad_blocks_same_index_sets", "C05_merge_small_dims_spec", "C05_multi_dim_split_is_boxes"]

    # ---- failing-input search: certified checkers on the implementation's own output ---------
    if bad_d or bad_u or bad_m or bad_s:
        # Distributor: every disagreeing case (where model and implementation agree the property holds by
        # C05_model_satisfies_spec / C05_grad_blocks_same_index_sets, so nothing is lost by not re-checking those)
        cidx = sorted(set(bad_d) | set(bad_u), key=lambda i: (math.prod(dwork[i][0]), len(dwork[i][0]), i))[:4000]   # smallest first; bounded cost
        citems = []
        for i in cidx:
            w, r = dwork[i], dres[i]
            if "exc" in r:
                citems += ["false", "false", "false"]
                continue
            if math.prod(w[0]) > 4096:      # large parameters: enumerating and sorting every offset in coqc is too slow; the storage-identity flags decide
                citems += [coq_bool(r["ok_p"]), coq_bool(r["ok_g"]), coq_bool(r["ok_u"])]
                continue
            citems.append(f"andb {coq_bool(r['ok_p'])} (C05_checkb {sh_thr_mg(w)} {views(r['pb'])})")
            citems.append(f"(C05_grad_checkb {views(r['pb'])} {views(r['gb'])})")
            citems.append(coq_bool(r["ok_u"]) if r["storage"] is None else f"andb {coq_bool(r['ok_u'])} (update_okb {views(r['pb'])} {zs(r['bases'])} {zs(r['storage'])})")
        cflat = eval_items(ck, "c05_chk", citems, 300)
        failing = []
        for j, i in enumerate(cidx):
            w = dwork[i]
            f = [nm for k, nm in enumerate(("blocks", "grad-blocks", "update")) if cflat[3 * j + k] != "T"]
            if f:
                failing.append((math.prod(w[0]), len(w[0]), w[1], i, f))
        # utilities: disagreeing cases only (merge: legal grouping; split: tiling of the input tensor)
        uitems, uidx = [], []
        for i in bad_m[:160]:
            (sh, thr), r = mwork[i], mres[i]
            uidx.append(("merge", i))
            uitems.append("false" if "exc" in r else
                          f"andb (prodl {zs(r['out'])} =? prodl {zs(sh)}) (is_merge_ofb {thr} (squeezed_or_one {zs(sh)}) {zs(r['out'])} (regroup (squeezed_or_one {zs(sh)}) {zs(r['out'])} 1 []))")
        for i in [i for i in bad_s if math.prod(swork[i][0]) <= 4000][:32]:
            (sh, b), r = swork[i], sres[i]
            uidx.append(("split", i))
            uitems.append("false" if "exc" in r else f"andb {coq_bool(r['ok'])} (C05_checkb {zs(sh)} {b} false {views(r['views'])})")
        uflat = eval_items(ck, "c05_uchk", uitems, 8)
        ufail = [ix for ix, bch in zip(uidx, uflat) if bch != "T"]

        if failing:
            failing.sort()
            _, _, _, i, f = failing[0]
            w, r = dwork[i], dres[i]
            what = {"blocks": "parameter blocks are not an exact tiling by narrows of the (legally merged) parameter with dims <= max_preconditioner_dim, or are not detached (requires_grad=False) views of its storage with its dtype",
                    "grad-blocks": "gradient blocks do not cover the same index sets as the parameter blocks (or are not views of the gradient)",
                    "update": "update_params did not add direction k exactly to the elements block k addresses"}[f[0]]
            if "exc" in r:
                what = f"construction / merge_and_block_gradients / update_params raised {r['exc']}"
            ck.report(None, f"Distributor violates C05 on shape={list(w[0])} max_preconditioner_dim={w[1]} use_merge_dims={w[2]} (dtype={dvar[i][0]}, nn.Parameter={dvar[i][1]}): {what}"
                            + ("" if "exc" in r else f"; blocks={r['pb'][:6]}"),
                      {"kind": "distributor", "shape": list(w[0]), "thr": w[1], "merge": w[2], "var": list(dvar[i]), "class": dclass[i], "failed_predicates": f, "impl": r,
                       "n_failing": len(failing), "predicate": "C05_checkb / C05_grad_checkb / update_okb on the implementation's output, and storage identity"})
        if ufail:
            kind, i = ufail[0]
            if kind == "merge":
                (sh, thr), r = mwork[i], mres[i]
                ck.report(None, f"merge_small_dims({list(sh)}, {thr}) = {r.get('out', r.get('exc'))} is not a legal merge (consecutive groups of the squeezed shape, fused groups <= threshold, numel kept)",
                          {"kind": "merge", "shape": list(sh), "thr": thr, "impl": r, "n_failing": len(ufail)})
            else:
                (sh, b), r = swork[i], sres[i]
                ck.report(None, f"multi_dim_split on shape {list(sh)} with split_size {b} does not tile the tensor by views with dims <= split_size",
                          {"kind": "split", "shape": list(sh), "b": b, "impl": r if len(str(r)) < 20000 else "omitted", "n_failing": len(ufail)})
        if not failing and not ufail:
            first = (("distributor", dwork[bad_d[0]], dres[bad_d[0]]) if bad_d else ("update", dwork[bad_u[0]], dres[bad_u[0]]) if bad_u
                     else ("merge", mwork[bad_m[0]], mres[bad_m[0]]) if bad_m else ("split", swork[bad_s[0]], "omitted"))
            ck.report(None, f"model/implementation correspondence broken ({len(bad_d)} distributor, {len(bad_u)} update, {len(bad_m)} merge_small_dims, "
                            f"{len(bad_s)} multi_dim_split cases; first: {first[0]} {first[1]}) but the implementation's output still passes the certified checkers",
                      {"kind": first[0] if first[0] != "update" else "distributor", "broken": "Blocking.agree_* (model vs implementation)",
                       "shape": list(first[1][0]), "thr": first[1][1], "b": first[1][1], "merge": first[1][2] if len(first[1]) > 2 else None, "impl": first[2],
                       "var": list(dvar[(bad_d or bad_u)[0]]) if (bad_d or bad_u) else None,
                       "theorems_not_transferring": transfer}, no_failing_input=True)

    # ---- gradient-layout stream: values-based certified checker on the implementation's own output ----
    if bad_g:
        gidx = sorted(bad_g, key=lambda i: (math.prod(gwork[i][0]), len(gwork[i][0]), i))[:3000]
        gc = []
        for i in gidx:
            r = gres[i]
            gc.append("false" if ("exc" in r or "rejected" in r) else
                      f"(C05_grad_values_checkb {views(r['pb'])} {gvals(r['g'])})")
        gcflat = eval_items(ck, "c05_gchk", gc, 300)
        gfail = [i for i, bch in zip(gidx, gcflat) if bch != "T"]
        if gfail:
            i = gfail[0]
            w, r = gwork[i], gres[i]
            if "exc" in r or "rejected" in r:
                what = f"raised {r.get('exc', r.get('rejected'))} instead of producing gradient blocks"
            else:
                k = next((k for k, (pbk, gk) in enumerate(zip(r["pb"], r["g"])) if sorted(gk[1]) != sorted(_ref_offsets(pbk)) or gk[0] != pbk[1]), 0)
                what = (f"gradient block {k} has shape {r['g'][k][0]} and carries logical indices {r['g'][k][1][:12]} but parameter block {k} "
                        f"(shape {r['pb'][k][1]}) covers {_ref_offsets(r['pb'][k])[:12]}") if k < len(r["g"]) else "block count differs"
            ck.report(None, f"Distributor violates C05 (gradient blocks must cover the index sets of the parameter blocks) on shape={list(w[0])} "
                            f"max_preconditioner_dim={w[1]} use_merge_dims={w[2]} gradient layout={w[3]} (grad strides {r.get('gstride')}): {what}",
                      {"kind": "gradlayout", "shape": list(w[0]), "thr": w[1], "merge": w[2], "layout": [w[3][0], list(w[3][1]) if w[3][0] == "perm" else w[3][1]],
                       "impl": r, "n_failing": len(gfail), "predicate": "C05_grad_values_checkb (observed logical indices of gradient block k = view_offsets of parameter block k)"})
        else:
            w, r = gwork[bad_g[0]], gres[bad_g[0]]
            ck.report(None, f"model/implementation correspondence broken on the gradient-layout stream ({len(bad_g)} cases; first: shape={list(w[0])} thr={w[1]} merge={w[2]} layout={w[3]}) "
                            "but the gradient blocks still cover the parameter blocks' index sets",
                      {"kind": "gradlayout", "shape": list(w[0]), "thr": w[1], "merge": w[2], "layout": [w[3][0], list(w[3][1]) if w[3][0] == "perm" else w[3][1]], "impl": r,
                       "broken": "Blocking.agree_grad_values", "theorems_not_transferring": ["C05_grad_blocks_same_index_sets"]}, no_failing_input=True)

    # ---- parameter-layout stream -------------------------------------------------------------------
    def lay_json(lay):
        return [lay[0], list(lay[1]) if lay[0] == "perm" else lay[1]]

    if bad_p:
        pidx = sorted(bad_p, key=lambda i: (math.prod(pwork[i][0]), len(pwork[i][0]), i))[:3000]
        pc = []
        for i in pidx:
            w, r = pwork[i], pres[i]
            if "exc" in r:
                pc += ["false", "false", "false"]
            elif "refused" in r:
                pc += [f"negb (viewable_layout {zs(w[0])} {zs(r['pstr'])} {w[1]} {coq_bool(w[2])})", "true", "true"]
            else:
                pc.append(f"andb {coq_bool(r['ok_p'])} (C05_layout_checkb {zs(w[0])} {zs(r['pstr'])} {w[1]} {views(r['pb'])})")
                pc.append(f"andb {coq_bool(r['ok_u'])} (update_raw_okb {views(r['pb'])} {zs(r['bases'])} {zs(r['raw'])})")
                pc.append(f"(C05_layout_grad_checkb {zs(w[0])} {zs(r['pstr'])} {views(r['pb'])} {gvals(r['g'])})")
        pcflat = eval_items(ck, "c05_pchk", pc, 300)
        pfail = [(i, pcflat[3 * j:3 * j + 3]) for j, i in enumerate(pidx) if pcflat[3 * j:3 * j + 3] != "TTT"]
        if pfail:
            i, fl = pfail[0]
            w, r = pwork[i], pres[i]
            if "exc" in r:
                what = f"raised {r['exc']}"
            elif "refused" in r:
                what = f"construction refused the parameter ({r['refused']}) although a strided view of the merged shape exists for this layout"
            elif not r["ok_p"]:
                what = "the blocks are NOT views of the parameter's own storage (a copy was blocked)"
            elif fl[0] != "T":
                what = f"the blocks do not tile the parameter's elements exactly once with dims <= max_preconditioner_dim; blocks={r['pb'][:4]}"
            elif fl[1] != "T":
                what = "update_params did not move exactly the elements the blocks address"
            else:
                what = "gradient blocks do not cover the index sets of the parameter blocks"
            ck.report(None, f"Distributor violates C05 on a parameter with a non-default memory layout: shape={list(w[0])} strides={r.get('pstr')} layout={w[3]} "
                            f"max_preconditioner_dim={w[1]} use_merge_dims={w[2]} gradient={w[4]}: {what}",
                      {"kind": "paramlayout", "shape": list(w[0]), "thr": w[1], "merge": w[2], "layout": lay_json(w[3]), "gvar": w[4], "impl": r, "n_failing": len(pfail),
                       "predicate": "storage identity, C05_layout_checkb, update_raw_okb, C05_layout_grad_checkb; a refusal only where viewable_layout = false"})
        else:
            w, r = pwork[bad_p[0]], pres[bad_p[0]]
            ck.report(None, f"model/implementation correspondence broken on the parameter-layout stream ({len(bad_p)} cases; first: shape={list(w[0])} thr={w[1]} merge={w[2]} layout={w[3]}) "
                            "but the implementation's output still passes the certified checkers",
                      {"kind": "paramlayout", "shape": list(w[0]), "thr": w[1], "merge": w[2], "layout": lay_json(w[3]), "gvar": w[4], "impl": r,
                       "broken": "Blocking.agree_param_layout / agree_update / agree_grad_values", "theorems_not_transferring": transfer}, no_failing_input=True)

    # ---- multi-call stream: values-based certified checker on every disagreeing call -------------------
    if bad_q:
        qc = []
        for j in bad_q:
            qi, ci = qmap[j]
            r = qres[qi][ci]
            qc.append("false" if "exc" in r else f"(C05_grad_values_checkb {views(r['p'])} {gvals(r['g'])})")
        qcflat = eval_items(ck, "c05_qchk", qc, 300)
        qfail = [j for j, bch in zip(bad_q, qcflat) if bch != "T"]
        j = (qfail or bad_q)[0]
        qi, ci = qmap[j]
        w, r = qwork[qi], qres[qi][ci]
        rep = {"kind": "multicall", "shapes": [list(sh) for sh in w[0]], "thr": w[1], "merge": w[2], "patterns": [list(pt) for pt in w[3]], "call": ci, "impl": r}
        if qfail:
            what = f"raised {r['exc']}" if "exc" in r else (f"gradient blocks carry {[g[1][:4] for g in r['g']][:4]}... but local_masked_blocked_params address "
                                                           f"{[_ref_offsets(pb)[:4] for pb in r['p']][:4]}... (1000*i + logical index of parameter i)")
            ck.report(None, f"Distributor violates C05 (gradient block k must cover the index set of the k-th active parameter block) with parameters {rep['shapes']} "
                            f"max_preconditioner_dim={w[1]} use_merge_dims={w[2]} after call {ci + 1} of the presence patterns {rep['patterns']}: {what}",
                      dict(rep, n_failing=len(qfail), predicate="C05_grad_values_checkb on (local_masked_blocked_params, returned gradient blocks)"))
        else:
            ck.report(None, f"model/implementation correspondence broken on the multi-call stream ({len(bad_q)} calls; first: parameters {rep['shapes']} thr={w[1]} merge={w[2]} "
                            f"patterns {rep['patterns']} call {ci + 1}) but gradient blocks and active parameter blocks still correspond",
                      dict(rep, broken="Blocking.agree_multi", theorems_not_transferring=["C05_grad_blocks_same_index_sets"]), no_failing_input=True)

    # ---- (b) verdict: implementation vs implementation ---------------------------------------
    inv_bad, exact1, exact2, max1, max2, inv_exc = [], 0, 0, 0.0, 0.0, []
    cfg_hist = {}
    for w, r in zip(iwork, ires):
        if "exc" in r:
            inv_exc.append((w, r))
            continue
        cfg_hist[r["cfg"]] = cfg_hist.get(r["cfg"], 0) + 1
        exact1 += r["d1"] == 0.0
        max1 = max(max1, r["d1"])
        # contiguous clones use other kernels: 1-ulp noise, amplified when epsilon is tiny / gradients are degenerate / storage is low precision -> measured only there
        check2 = w[4] >= 1e-8 and (len(w) < 10 or tuple(w[7:10]) == ("normal", "float64", "float64"))
        if check2:
            exact2 += r["d2"] == 0.0
            max2 = max(max2, r["d2"])
        f64 = len(w) < 10 or w[8] == "float64"      # a float64 run that blows up is a meaningless configuration; a half-precision overflow is an input class (same non-finite pattern required)
        if (f64 and not r["finite"]) or not (r["d1"] <= INV_TOL) or (check2 and not (r["d2"] <= INV_TOL)):
            inv_bad.append((w, r))
    for w, r in (inv_bad[:1] + inv_exc[:1]):
        ck.report(None, f"[implementation-vs-implementation] blocked run differs from the run on its blocks as separate parameters: config#{w[0]} shape={list(w[1])} "
                        f"max_preconditioner_dim={w[2]} use_merge_dims={w[3]} epsilon={w[4]} steps={w[5]} seed={w[6]}: {r}",
                  {"kind": "invariance", "args": list(w), "result": r, "n_failing": len(inv_bad) + len(inv_exc), "tolerance": INV_TOL})

    # ---- evidence ------------------------------------------------------------------------------
    ok_d = [(w, r) for w, r in zip(dwork, dres) if "exc" not in r]
    nontriv = {(w[0], w[1], w[2]) for w, r in ok_d if r["nb"] >= 2 or tuple(r["merged"]) != tuple(w[0])}
    nb_hist, ord_hist = {}, {}
    for w, r in ok_d:
        k = "1" if r["nb"] == 1 else "2-4" if r["nb"] <= 4 else "5-16" if r["nb"] <= 16 else "17+"
        nb_hist[k] = nb_hist.get(k, 0) + 1
        ord_hist[str(len(w[0]))] = ord_hist.get(str(len(w[0])), 0) + 1
    cand = [i for i, (w, r) in enumerate(zip(dwork, dres)) if "exc" not in r and 2 <= w[1] <= 9 and 2 <= r["nb"] <= 6 and len(w[0]) >= 2]
    pick = [cand[len(cand) // 5], cand[len(cand) // 2], cand[-len(cand) // 7]] if len(cand) >= 3 else list(range(min(3, len(dwork))))
    ck.coverage.update({
        "evaluations": len(ditems) + len(mitems) + len(sitems) + len(gitems) + len(pitems) + len(qitems) + len(iwork),
        "distinct_nontrivial": len(nontriv),
        "rule": f"every shape of order 0..4 with numel<={maxn} (size-1 dims included) x max_preconditioner_dim in {THRS} x use_merge_dims on/off through a real "
                "Distributor (2 booleans per case: blocks+gradient blocks+merged dims+count+storage identity; effect of update_params), plus random large shapes "
                "for merge_small_dims (thresholds on/next to products of consecutive dims) and multi_dim_split; non-trivial = distinct (shape,thr,merge) with >=2 blocks "
                "or a merged shape different from the shape",
        "exhaustive": True,
        "samples": [{"shape": list(dwork[i][0]), "thr": dwork[i][1], "merge": dwork[i][2], "merged": dres[i].get("merged"), "blocks": dres[i].get("pb", [])[:4]} for i in pick],
        "distribution": {"distributor_cases": len(dwork), "orders": ord_hist, "blocks_per_param": nb_hist,
                         "merge_small_dims_random": len(mwork), "multi_dim_split_random": len(swork),
                         "split_blocks_max": max((len(r.get("views", [])) for r in sres), default=0)},
        "disagreements": {"distributor": len(bad_d), "update": len(bad_u), "merge_small_dims": len(bad_m), "multi_dim_split": len(bad_s), "gradient_layout": len(bad_g), "parameter_layout": len(bad_p), "multi_call": len(bad_q)},
        "parameter_layout_stream": {
            "rule": f"every shape of order 2..4 with numel<={pmaxn} x max_preconditioner_dim in {list(pthrs)} x merge on/off x layouts of the gradient stream + a row-padded narrow, applied to the PARAMETER; "
                    "gradient alternately contiguous / stored like the parameter. Accepted: blocks are views of the parameter's storage addressing loc(logical indices of the model's blocks), update_params moves "
                    "exactly those elements, gradient blocks carry the model's index sets - OR a RuntimeError at construction where Blocking.viewable_layout (a strided view of the merged shape exists) is false. A copy is a violation.",
            "cases": len(pwork), "accepted_as_views": sum(1 for r in pres if "pb" in r), "refused_at_construction": sum(1 for r in pres if "refused" in r),
            "blocks_not_in_parameter_storage": sum(1 for r in pres if r.get("ok_p") is False),
            "gradient_variants": {v: sum(1 for w in pwork if w[4] == v) for v in ("contig", "same")}},
        "multi_call_stream": {
            "rule": "2-4 parameters in one Distributor (all 64 three-call sequences for 5 pairs of equal parameters + random ones with equal and unequal block counts, rotated patterns); after every "
                    "merge_and_block_gradients call local_grad_selector, local_masked_blocked_params (owner parameter + geometry) and the returned gradient blocks (shape, values = 1000*i + logical index) are compared with the model of the current pattern",
            "sequences": len(qwork), "calls": len(qitems),
            "same_count_different_pattern_transitions": sum(1 for w, rs in zip(qwork, qres) for a, b, ra, rb in zip(w[3], w[3][1:], rs, rs[1:])
                                                            if a != b and "sel" in ra and "sel" in rb and sum(ra["sel"]) == sum(rb["sel"]))},
        "gradient_layout_stream": {
            "rule": f"every shape of order 2..4 with numel<={gmaxn} x max_preconditioner_dim in {list(gthrs)} x merge on/off x layouts (storage with reversed dims, last two dims swapped, "
                    "first two swapped, channels_last for order 4, gapped as_strided with doubled strides and storage offset 3); the gradient's values are its logical row-major indices; "
                    "each gradient block (shape, values in its own row-major order) is compared inside coqc with view_offsets of the model's block; a RuntimeError from grad.view is accepted only where the model's merged dims differ from the shape",
            "cases": len(gwork), "compared_by_value": sum(1 for r in gres if "g" in r), "rejected_by_view": sum(1 for r in gres if "rejected" in r), "gradient_blocks_copied_not_aliased": sum(1 for r in gres if r.get("ok_g") is False),
            "layouts": {str(k): sum(1 for w in gwork if (w[3][0], tuple(w[3][1]) if w[3][0] == "perm" else w[3][1]) == k) for k in sorted({(w[3][0], tuple(w[3][1]) if w[3][0] == "perm" else w[3][1]) for w in gwork}, key=str)},
            "truly_non_default_strides": sum(1 for w, r in zip(gwork, gres) if r.get("gstride") is not None and r["gstride"] != [math.prod(w[0][i + 1:]) for i in range(len(w[0]))])},
        "invariance_impl_vs_impl": {
            "label": "implementation-vs-implementation test (NOT model-vs-implementation, NOT a theorem): real DistributedShampoo, float64, blocked tensor vs its blocks as separate parameters",
            "runs": len(iwork), "configs": cfg_hist, "steps": "5-6", "tolerance": INV_TOL,
            "same_strided_blocks": {"bit_exact": exact1, "max_abs_diff": max1},
            "contiguous_clones_eps>=1e-8": {"bit_exact": exact2, "max_abs_diff": max2},
            "failing": len(inv_bad), "exceptions": len(inv_exc)},
    })
    # ---- quantifier audit: every input class the property's quantifier names or plainly allows, with the number of cases generated in THIS run
    def merged_of(i):
        return dres[i].get("merged") or []
    okd = [i for i in range(len(dwork)) if "exc" not in dres[i]]
    kinds_i = {}
    for w in iwork:
        k = "inv_kind_" + (w[7] if len(w) >= 10 else "normal")
        kinds_i[k] = kinds_i.get(k, 0) + 1
        if len(w) >= 10 and (w[8], w[9]) != ("float64", "float64"):
            kk = f"inv_dtype_param_{w[8]}_precond_{w[9]}"
            kinds_i[kk] = kinds_i.get(kk, 0) + 1
    audit = {f"distributor_order_{o}": sum(1 for w in dwork if len(w[0]) == o) for o in range(7)}
    audit.update({
        "distributor_shape_with_size1_dim": sum(1 for w in dwork if 1 in w[0]),
        "distributor_all_ones_or_order0 (merge result [1])": sum(1 for w in dwork if all(x == 1 for x in w[0])),
        "merge_on": sum(1 for w in dwork if w[2]), "merge_off": sum(1 for w in dwork if not w[2]),
        "max_preconditioner_dim_1": sum(1 for w in dwork if w[1] == 1),
        "max_preconditioner_dim_equals_a_dim": sum(1 for w in dwork if w[1] in w[0]),
        "max_preconditioner_dim_equals_product_of_adjacent_dims (boundary of <=)": sum(1 for w in dwork if any(math.prod(w[0][a:b2]) == w[1] for a in range(len(w[0])) for b2 in range(a + 2, len(w[0]) + 1))),
        "max_preconditioner_dim_one_below_such_a_product": sum(1 for w in dwork if any(math.prod(w[0][a:b2]) == w[1] + 1 for a in range(len(w[0])) for b2 in range(a + 2, len(w[0]) + 1))),
        "max_preconditioner_dim_at_least_numel (single block when merging)": sum(1 for w in dwork if w[1] >= math.prod(w[0])),
        "huge_max_preconditioner_dim (2^31-1, 2^31, 2^63-1)": dclass.count("huge_max_preconditioner_dim"),
        "dim_larger_than_limit_with_remainder": sum(1 for i in okd if any(x > dwork[i][1] and x % dwork[i][1] for x in merged_of(i))),
        "dim_exact_multiple_of_limit": sum(1 for i in okd if any(x > dwork[i][1] and x % dwork[i][1] == 0 for x in merged_of(i))),
        "single_original_dim_above_limit_kept_by_merge": sum(1 for i in okd if dwork[i][2] and any(x > dwork[i][1] for x in merged_of(i))),
        "parameter_at_nonzero_storage_offset": sum(1 for w in dwork if (w[1] + len(w[0]) + int(w[2])) % 3 != 0),
        "parameter_dtype_float16": dclass.count("dtype_float16"), "parameter_dtype_bfloat16": dclass.count("dtype_bfloat16"),
        "parameter_dtype_float64": dclass.count("dtype_float64"), "parameter_dtype_float32": sum(1 for v in dvar if v[0] == "float32"),
        "nn_Parameter_requires_grad_True": sum(1 for v in dvar if v[1]),
        "large_parameter_through_Distributor (numel up to 3e5, sizes no multiple of the limit)": dclass.count("large_parameter"),
        "update_params_observed": sum(1 for i in okd if dres[i]["storage"] is not None),
        "gradient_layout_non_default_strides": sum(1 for w, r in zip(gwork, gres) if r.get("gstride") is not None and r["gstride"] != [math.prod(w[0][i + 1:]) for i in range(len(w[0]))]),
        "gradient_layout_channels_last": sum(1 for w in gwork if w[3] == ("perm", (0, 2, 3, 1))),
        "gradient_layout_gapped_with_storage_offset": sum(1 for w in gwork if w[3][0] == "gap"),
        "parameter_layout_non_contiguous": len(pwork), "parameter_layout_refused_no_view_exists": sum(1 for r in pres if "refused" in r),
        "parameter_layout_row_padded_narrow": sum(1 for w in pwork if w[3][0] == "pad"),
        "parameter_layout_with_same_layout_gradient": sum(1 for w in pwork if w[4] == "same"),
        "multi_call_sequences": len(qwork), "multi_call_calls": len(qitems),
        "multi_call_same_count_different_pattern": sum(1 for w, rs in zip(qwork, qres) for a, b2, ra, rb in zip(w[3], w[3][1:], rs, rs[1:]) if a != b2 and "sel" in ra and "sel" in rb and sum(ra["sel"]) == sum(rb["sel"])),
        "multi_call_pattern_repeated_unchanged (second call, cached selector path)": sum(1 for w in qwork for a, b2 in zip(w[3], w[3][1:]) if a == b2),
        "multi_call_no_gradient_at_all": sum(1 for w in qwork for a in w[3] if not any(a)),
        "multi_call_gradient_present_for_a_subset": sum(1 for w in qwork for a in w[3] if any(a) and not all(a)),
        "multi_call_transposed_gradient_on_every_second_call": sum(1 for w in qwork for ci, a in enumerate(w[3]) if ci % 2 == 1 and any(on and len(sh) >= 2 for on, sh in zip(a, w[0]))),
        "multi_call_parameters_with_unequal_block_counts": sum(1 for w in qwork if len(set(w[0])) > 1),
        "merge_small_dims_random_order_0_to_7": len(mwork), "merge_small_dims_threshold_on_or_next_to_a_product": sum(1 for sh, thr in mwork if any(abs(math.prod([d for d in sh if d != 1][a:b2]) - thr) <= 1 for a in range(len(sh)) for b2 in range(a + 1, len(sh) + 1))),
        "multi_dim_split_random_large": len(swork),
        "inv_optimizer_configurations": ncfg, "inv_runs": len(iwork),
        "inv_epsilon_1e-12_default": sum(1 for w in iwork if w[4] == 1e-12),
    })
    audit.update(kinds_i)
    audit["inv_result_overflows_storage_dtype (identical non-finite pattern required)"] = sum(1 for r in ires if r.get("finite") is False)
    ck.coverage["quantifier_audit"] = audit
    ck.coverage["not_exercised"] = {
        "tensors with a dimension of size 0": "the model's theorems assume positive dims and there is no element to tile; torch gives empty tensors strides with max(size,1), so the stride-level model does not apply (probed by hand: the code returns empty blocks without raising)",
        "order > 6": "theorems are by induction over the order; the Distributor stream stops at order 6, the utilities at order 7",
        "integer / complex / float8 parameter dtypes": "not optimizer parameter dtypes; blocking code is dtype-agnostic, covered for float16/bfloat16/float32/float64",
        "CUDA / other devices": "no GPU in the sandbox",
        "parameters whose storage overlaps itself (expanded, stride 0) or is shared between two parameters": "update_params on such views is undefined behaviour in torch; the exactly-once clause cannot hold for them",
        "DTensor / FSDP / HSDP / FullyShard distributor subclasses": "they override _merge_and_block_parameters/_gradients; covered by C06-C08",
        "contiguous-clone invariance variant (B2) as a verdict outside float64 + epsilon>=1e-8 + ordinary gradients": "other kernels for contiguous operands give 1-ulp noise that degenerate/low-precision runs amplify; there B2 is measured and only the same-strided variant (bit-exact expected) is judged",
        "invariance for ALL optimizer configurations": f"{ncfg} configurations x random shapes are run; the universally quantified statement is the Coq theorem C05_blocked_eq_presplit on the structural model",
        "half-precision parameters with QR/eigh based eigenvalue-corrected configurations in the invariance runs": "no half-precision kernels for those factorizations on this platform (C03 covers the dtype pairings of those paths)",
    }
    ck.notes.append("blocked_eq_presplit: proved on the structural model (props/C05.v, via Masks.v + OptimizerMasks.v); the implementation-vs-implementation runs test it on the real optimizer")
    ck.assumptions += ["torch view/split/detach/storage_offset/stride behave as observed (blocks identified by storage pointer + offset + sizes + strides)",
                       "torch._foreach_add_ on views writes through to the parameter (exercised by the update test on every enumerated case)"]
    ck.gen_equiv_verdict()


def replay(obj) -> bool:
    common.assert_repo_imports()
    kind = obj.get("kind")
    if kind == "distributor":
        r = dist_case((tuple(obj["shape"]), obj["thr"], bool(obj["merge"]), tuple(obj.get("var") or ("float32", False))))
        print("implementation returns", {k: r.get(k) for k in ("exc", "merged", "nb", "pb", "gb", "ok_p", "ok_g", "ok_u")})
        print("recorded", {k: (obj.get("impl") or {}).get(k) for k in ("merged", "nb", "pb", "gb")} if isinstance(obj.get("impl"), dict) else obj.get("impl"))
    elif kind == "merge":
        print("implementation returns", merge_case((tuple(obj["shape"]), obj["thr"])), "recorded", obj.get("impl"))
    elif kind == "split":
        r = split_case((tuple(obj["shape"]), obj["b"]))
        print("implementation returns", str(r)[:2000])
    elif kind == "gradlayout":
        lay = obj["layout"]
        r = gradlayout_case((tuple(obj["shape"]), obj["thr"], bool(obj["merge"]), (lay[0], tuple(lay[1]) if lay[0] == "perm" else lay[1])))
        print("implementation returns", r)
        print("recorded", obj.get("impl"))
    elif kind == "paramlayout":
        lay = obj["layout"]
        r = paramlayout_case((tuple(obj["shape"]), obj["thr"], bool(obj["merge"]), (lay[0], tuple(lay[1]) if lay[0] == "perm" else lay[1]), obj["gvar"]))
        print("implementation returns", r)
        print("recorded", obj.get("impl"))
    elif kind == "multicall":
        rs = multicall_case((tuple(tuple(sh) for sh in obj["shapes"]), obj["thr"], bool(obj["merge"]), tuple(tuple(pt) for pt in obj["patterns"])))
        print("implementation returns (call %d)" % (obj["call"] + 1), rs[obj["call"]])
        print("recorded", obj.get("impl"))
    elif kind == "invariance":
        a = obj["args"]
        print("implementation returns", inv_case((a[0], tuple(a[1]), a[2], a[3], a[4], a[5], a[6])), "recorded", obj.get("result"))
    else:
        print("nothing to replay for kind", kind)
    return True
