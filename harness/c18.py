"""C18 - a PT2-compiled step computes the same update as the eager step.

Translation validation, per execution: every step of a compiled optimizer (torch.compile of the per-group step, backends
`eager` and `aot_eager`, static / dynamic / automatic shape modes) is validated (a) against the proved Coq model of the
step (the same `step_ok` evaluation as C01, done by coqc) and (b) bit-for-bit against the uncompiled optimizer run on the
same inputs.  Dynamo/AOTAutograd themselves are foreign code: nothing is proved about them."""
from __future__ import annotations

import copy
import json
import multiprocessing as mp

from harness import common, optrun
from harness import c01
from harness.common import Check

META = {
    "property_id": "C18",
    "category": "translation_validation",
    "design_ref": "DESIGN.md §4 C18",
    "technique": "Coq theorems about the way the optimizer drives torch.compile (Compiled.v: flags outside + kernel, soundness of a specialisation cache for the optimizer's key/data split, over every call history) + per-execution translation validation of torch.compile'd optimizer steps against the Coq model of the step (theorems of C01) and against eager runs; the call interface of the compiled function is tied to the model by coqc",
    "level_text": "For every compiled program (configuration x shape mode x backend) each step's observed pre-state -> post-state transition is checked by coqc against the Gallina model of the step whose theorems are C01's (reference semantics), and the compiled run is compared bit-for-bit with the eager run.  This validates executions, not the compiler: 'compiled == eager for all programs' is not provable without a model of Dynamo.",
    "level_note": "Trusted: Coq kernel + vm_compute, the C01 model (tied to the eager implementation by C01), torch's own eager execution as comparison partner.  Backends eager and aot_eager on CPU only; inductor is outside the property's wording. A run in which Dynamo compiled nothing (silent fallback) is counted as not validated and fails the check.",
    "ready": True,
}

MODES = [("eager", False), ("eager", True), ("eager", None), ("aot_eager", False), ("aot_eager", True), ("aot_eager", None)]


def gen_case(rng, i):
    """Configurations that walk through every branch of the group step; histories cross warm-up -> preconditioned, refresh and
    non-refresh steps, and change gradient presence (forcing recompilation)."""
    c = c01.gen_cfg(rng)
    branch = i % 12
    c["graft"] = [None, "sgd", "adagrad", "rmsprop", "adam", "adam"][branch % 6]
    c["kind"], c["amort"] = (("shampoo", "eigen"), ("soap", "eigh"), ("soap", "qr"), ("shampoo", "eigen_stab"))[(i // 2) % 4]
    c.pop("expmult", None)
    c["wd"] = [0.0, 0.25, 0.25][i % 3]
    c["decoupled"] = bool(i % 2)
    c["momentum"] = [0.0, 0.5][(i // 3) % 2]
    c["nesterov"] = bool((i // 6) % 2)
    b1 = [0.0, 0.5, 0.875][i % 3]
    c["betas"] = (b1, [1.0, 0.75][(i // 2) % 2])
    c["beta3"] = -1.0 if b1 == 0.0 else [-1.0, 0.25][(i // 4) % 2]
    c["freq"], c["start"] = 2, 3
    c["override"], c["ignored"] = 0, []
    c["eps"] = 1e-3
    c["max_dim"] = 1 if i % 12 == 7 else rng.choice([2, 3, 1024])
    shapes = [rng.choice([[3, 4], [4, 4], [2, 3, 2], [5]]) for _ in range(rng.randint(2, 3))]
    nsteps = 7
    variant = (i // 6) % 3
    if variant == 1:
        # two parameters of the SAME shape whose gradients alternate: the masked lists change while their lengths and tensor
        # metadata do not, so Dynamo's guards do not force a recompilation
        sh = rng.choice([[3, 4], [4, 4], [5]])
        shapes = [sh, sh]
        c["max_dim"] = 1024
        steps = []
        for s in range(nsteps):
            pres = [True, True] if s in (0, 6) else ([True, False] if s % 2 else [False, True])
            steps.append({"present": [pres], "gseed": rng.randrange(1 << 30), "edits": None})
        return {"groups": [{"cfg": c, "shapes": shapes}], "init_seed": rng.randrange(1 << 30), "steps": steps}
    if variant == 2:
        # twin parameter groups: identical hyperparameters and shapes (the compiled per-group step is shared by all groups)
        steps = [{"present": [[True] * len(shapes), [True] * len(shapes)], "gseed": rng.randrange(1 << 30), "edits": None} for s in range(nsteps)]
        steps[3]["present"][1][0] = False
        # every other twin case: the second group grafts from a DIFFERENT method (state shared between groups by mistake shows here)
        ov = {}
        if (i // 18) % 2 == 1 and c["graft"] in ("adam", "rmsprop", "adagrad"):
            ov = {"graft": {"adam": "rmsprop", "rmsprop": "adam", "adagrad": "adam"}[c["graft"]], "gbeta2": c["gbeta2"], "geps": c["geps"]}
        return {"groups": [{"cfg": c, "shapes": shapes}, {"overrides": ov, "shapes": list(shapes)}], "init_seed": rng.randrange(1 << 30), "steps": steps}
    flip = rng.randrange(len(shapes))
    steps = []
    for s in range(nsteps):
        pres = [True] * len(shapes)
        if s in (2, 3, 5):
            pres[flip] = False
        steps.append({"present": [pres], "gseed": rng.randrange(1 << 30), "edits": [{"lr": 0.25}] if s == 4 else None})
    return {"groups": [{"cfg": c, "shapes": shapes}], "init_seed": rng.randrange(1 << 30), "steps": steps}


def worker(args):
    case, mode = args
    import torch
    import torch._dynamo as dyn
    dyn.reset()
    dyn.config.cache_size_limit = 64
    from torch._dynamo.utils import counters
    counters.clear()
    comp = copy.deepcopy(case)
    comp["pt2"] = {"backend": mode[0], "dynamic": mode[1]}
    iface, cur = [], {"si": 0}
    try:
        params_c = optrun.build_params(comp)
        opt_c = optrun.build_optimizer(comp, params_c)
        inner = opt_c._per_group_step          # the torch.compile'd callable

        def recording_per_group_step(state_lists, step, lr, *rest):
            # the call interface of the compiled function: what is a tensor (data of the graph) and what is a Python scalar (guarded)
            gi = next((k for k, sl in enumerate(opt_c._per_group_state_lists) if sl is state_lists), -1)
            tensors_ok = (isinstance(step, torch.Tensor) and step.dim() == 0 and isinstance(lr, torch.Tensor) and lr.dim() == 0
                          and lr.dtype == torch.float32 and len(rest) == 11
                          and all(type(x) in (float, int) for x in rest[:5]) and all(type(x) is bool for x in rest[5:]))
            iface.append({"si": cur["si"], "g": gi, "tensors_ok": bool(tensors_ok), "t": int(step.item()) if isinstance(step, torch.Tensor) else -1,
                          "lr": float(lr) if isinstance(lr, torch.Tensor) else float("nan"),
                          "floats": [float(x) for x in rest[:5]], "bools": [bool(x) for x in rest[5:]]})
            return inner(state_lists, step, lr, *rest)

        opt_c._per_group_step = recording_per_group_step
        recs_c, opt_c, params_c = optrun.run_case(comp, opt=opt_c, params=params_c,
                                                  on_step=lambda si, o, p: cur.__setitem__("si", si + 1))
    except Exception as e:  # noqa
        return {"error": f"compiled run failed: {type(e).__name__}: {e}"[:400]}
    graphs = int(counters["stats"].get("unique_graphs", 0))
    # number of blocks (mutated views) sharing one parameter's storage
    max_blocks = 0
    for gi in range(len(params_c)):
        _, infos = optrun.group_handles(opt_c, gi)
        per = {}
        for info in infos:
            per[id(info.param)] = per.get(id(info.param), 0) + 1
        max_blocks = max([max_blocks] + list(per.values()))
    step_errors = [(si, r["error"]) for si, row in enumerate(recs_c) for r in row if r["error"]]
    recs_e, _, params_e = optrun.run_case(case)
    rows, biteq = [], True
    first_diff = None
    for si, (rc, re_) in enumerate(zip(recs_c, recs_e)):
        for gi, (a, b) in enumerate(zip(rc, re_)):
            same = a["after"] == b["after"] and a["error"] == b["error"]
            if not same and first_diff is None:
                first_diff = (si, gi)
            biteq = biteq and same
            rows.append({"step": si, "group": gi, "term": optrun.cstep(a), "error": a["error"], "ncalls": len(a["calls"])})
    iface_terms = []
    for rec in iface:
        if rec["g"] < 0 or rec["si"] >= len(recs_c) or len(rec["floats"]) != 5 or len(rec["bools"]) != 6:
            iface_terms.append("[false]")
            continue
        cfg = recs_c[rec["si"]][rec["g"]]["cfg"]
        cb = common.coq_bool
        iface_terms.append(f"iface_ok {optrun.ccfg(cfg)} {optrun.cZ(rec['t'])} {cb(rec['tensors_ok'])} {optrun.fl(rec['lr'])} "
                           + " ".join(optrun.fl(x) for x in rec["floats"]) + " " + " ".join(cb(x) for x in rec["bools"]))
    expected_calls = sum(1 for row in recs_e for r in row if any(g is not None for g in r["grads"]))
    return {"rows": rows, "graphs": graphs, "biteq": biteq, "first_diff": first_diff, "max_blocks": max_blocks,
            "step_errors": step_errors[:2], "iface_terms": iface_terms, "iface": iface[:3], "expected_calls": expected_calls}


def run(ck: Check) -> None:
    ck.level = "translation_validation"
    ck.coq_props(props_file="C01.v", extra_targets=["exec/RunOpt.vo"])      # the reference semantics of one step
    ref = {k: ck.coverage.get(k) for k in ("obligations", "discharged", "theorems", "axioms_reported_by_Print_Assumptions")}
    ck.coq_props(props_file="C18.v")                                          # the compiled-call structure (Compiled.v)
    ck.coverage["obligations"] += ref["obligations"]
    ck.coverage["discharged"] += ref["discharged"]
    ck.coverage["theorems"] = ref["theorems"] + ck.coverage["theorems"]
    ck.coverage["axioms_reported_by_Print_Assumptions"] = sorted(set(ref["axioms_reported_by_Print_Assumptions"]) | set(ck.coverage["axioms_reported_by_Print_Assumptions"]))
    common.assert_repo_imports()
    thorough = ck.tier == "thorough"
    n = 300 if thorough else 36
    jobs = []
    for i in range(n):
        jobs.append((gen_case(ck.rng, i), MODES[i % len(MODES)]))
    with mp.get_context("spawn").Pool(12, maxtasksperchild=4) as pool:
        results = pool.map(worker, jobs, chunksize=1)

    files, index = {}, []
    cur = []
    for ji, res in enumerate(results):
        if "error" in res:
            continue
        for ri, row in enumerate(res["rows"]):
            if row["error"]:
                continue
            cur.append(row["term"])
            index.append((ji, ri))
            if len(cur) >= 60:
                files[f"c18_{len(files):04d}"] = cur
                cur = []
    if cur:
        files[f"c18_{len(files):04d}"] = cur
    out = ck.eval_coq({k: optrun.coq_file(v) for k, v in files.items()}, timeout=1200)
    verdicts = [v for k in files for v in out[k]]
    assert len(verdicts) == len(index)

    # ---- the call interface of the compiled function (Compiled.v's key / data split), decided by coqc ----
    if_files, if_index, cur = {}, [], []
    for ji, res in enumerate(results):
        if "error" in res:
            continue
        for k, term in enumerate(res["iface_terms"]):
            cur.append(term)
            if_index.append((ji, k))
            if len(cur) >= 400:
                if_files[f"c18_if_{len(if_files):04d}"] = cur
                cur = []
    if cur:
        if_files[f"c18_if_{len(if_files):04d}"] = cur
    if_out = ck.eval_coq({k: optrun.coq_file(v) for k, v in if_files.items()}, timeout=600) if if_files else {}
    if_verdicts = [v for k in if_files for v in if_out[k]]
    assert len(if_verdicts) == len(if_index)
    if_bad = {}
    for (ji, k), v in zip(if_index, if_verdicts):
        if "F" in v and ji not in if_bad:
            if_bad[ji] = (k, v)
    IF_NAMES = ["step and lr are 0-d tensors, the other arguments Python scalars", "lr tensor = float32(group lr)", "float constants = the group's",
                "bool constants = the group's", "perform_amortized_computation = model flag", "use_grafting_method = model flag"]

    programs = validated_steps = disagreements = 0
    modes_hist = {}
    for ji, res in enumerate(results):
        case, mode = jobs[ji]
        key = f"{mode[0]}/dynamic={mode[1]}"
        if "error" in res:
            ck.report(None, f"compiled optimizer could not run ({key}): {res['error']}", {"kind": "compiled-run-error", "case": case, "mode": list(mode), "error": res["error"]})
            continue
        programs += 1
        modes_hist[key] = modes_hist.get(key, 0) + 1
        if res["step_errors"]:
            si, err = res["step_errors"][0]
            sig = None
            if mode[0] == "aot_eager" and mode[1] is not False and res["max_blocks"] >= 2 and "BackendCompilerFailed" in err:
                sig = "C18:aot-dynamic-aliased-blocks"
            ck.report(sig, f"compiled step {si} raised under {key} (max blocks per parameter {res['max_blocks']}): {err[:160]}",
                      {"kind": "compiled-step-raises", "case": case, "mode": list(mode), "step": si, "error": err, "max_blocks_per_param": res["max_blocks"]})
            continue
        if res["graphs"] == 0:
            ck.report(None, f"Dynamo compiled no graph for {key}: the run fell back to eager and validates nothing",
                      {"kind": "no-graph", "case": case, "mode": list(mode)}, no_failing_input=True)
        if ji in if_bad:
            k, v = if_bad[ji]
            comps = [IF_NAMES[i] for i, ch in enumerate(v) if ch == "F" and i < len(IF_NAMES)] or ["malformed call"]
            ck.report(None, f"call {k} of the compiled per-group step ({key}) does not have the interface of the model (Compiled.group_step_via): {comps}",
                      {"kind": "compiled-call-interface", "case": case, "mode": list(mode), "call": k, "components": comps, "first_calls": res["iface"],
                       "broken": "correspondence between Compiled.group_step_via / ci_key and the call interface of DistributedShampoo._per_group_step",
                       "theorems_not_transferring": ["C18_compiled_group_step_eq_group_step", "C18_specialised_graph_sound"]},
                      no_failing_input=res["biteq"] and not res["step_errors"])
        if len(res["iface_terms"]) != res["expected_calls"]:
            ck.report(None, f"the per-group step was called {len(res['iface_terms'])} times ({key}) but {res['expected_calls']} (step, group) pairs had a gradient",
                      {"kind": "compiled-call-count", "case": case, "mode": list(mode), "calls": len(res["iface_terms"]), "expected": res["expected_calls"],
                       "broken": "correspondence between Compiled.group_step_via (one kernel call per group with a gradient) and DistributedShampoo.step"},
                      no_failing_input=res["biteq"] and not res["step_errors"])
        if not res["biteq"]:
            disagreements += 1
            si, gi = res["first_diff"]
            ck.report(None, f"compiled ({key}) and eager optimizers differ after step {si} (group {gi}): parameters/state not bit-identical",
                      {"kind": "compiled-vs-eager", "case": case, "mode": list(mode), "step": si, "group": gi})
    bad = {}
    for (ji, ri), v in zip(index, verdicts):
        validated_steps += 1
        if "F" in v and ji not in bad:
            bad[ji] = (results[ji]["rows"][ri], v)
    for ji, (row, v) in bad.items():
        disagreements += 1
        case, mode = jobs[ji]
        ck.report(None, f"compiled step {row['step']} ({mode[0]}, dynamic={mode[1]}) does not follow the model of the update rule in {c01.describe(v)}",
                  {"kind": "compiled-vs-model", "case": case, "mode": list(mode), "step": row["step"], "components": c01.describe(v)})

    ck.coverage.update({
        "programs": programs, "disagreements_checked": disagreements,
        "samples": [{"mode": list(jobs[i][1]), "cfg": jobs[i][0]["groups"][0]["cfg"], "shapes": jobs[i][0]["groups"][0]["shapes"]} for i in (0, len(jobs) // 2, len(jobs) - 1)],
        "evaluations": validated_steps, "distinct_nontrivial": programs,
        "rule": "program = one optimizer configuration compiled with one (backend, dynamic) mode and run for 7 steps crossing warm-up/preconditioned, refresh/non-refresh, an lr edit and two gradient-presence changes; every step validated against the Coq step model by coqc and the whole run compared bit-for-bit with eager; non-trivial = Dynamo reported at least one compiled graph",
        "distribution": {"modes": modes_hist, "graphs_per_program": sorted({r.get("graphs", 0) for r in results if "error" not in r})},
        "explanation": "translation validation of executions; the compiler is not modelled (Compiled.v proves what a sound specialisation cache with the observed key/data split guarantees)",
        "call_interface_checked": len(if_index),
        "quantifier_audit": {
            "backend eager / aot_eager": [sum(1 for j in jobs if j[1][0] == "eager"), sum(1 for j in jobs if j[1][0] == "aot_eager")],
            "shape mode static / dynamic / automatic": [sum(1 for j in jobs if j[1][1] is False), sum(1 for j in jobs if j[1][1] is True), sum(1 for j in jobs if j[1][1] is None)],
            "gradient presence change that changes the number of active blocks (forces recompilation)": sum(1 for j in jobs if len(j[0]["groups"]) == 1 and any(not all(s["present"][0]) for s in j[0]["steps"]) and not (len(j[0]["groups"][0]["shapes"]) == 2 and j[0]["groups"][0]["shapes"][0] == j[0]["groups"][0]["shapes"][1] and any(s["present"][0] in ([True, False], [False, True]) for s in j[0]["steps"]))),
            "alternating gradients on two equal-shaped parameters (same count, no recompilation)": sum(1 for j in jobs if len(j[0]["groups"]) == 1 and len(j[0]["groups"][0]["shapes"]) == 2 and any(s["present"][0] == [True, False] for s in j[0]["steps"]) and any(s["present"][0] == [False, True] for s in j[0]["steps"])),
            "twin parameter groups (identical hyperparameters and shapes)": sum(1 for j in jobs if len(j[0]["groups"]) == 2 and not j[0]["groups"][1]["overrides"]),
            "two groups grafting from different methods": sum(1 for j in jobs if len(j[0]["groups"]) == 2 and j[0]["groups"][1]["overrides"]),
            "lr edited between steps": sum(1 for j in jobs if any(s.get("edits") for s in j[0]["steps"])),
            "Shampoo / SOAP": [sum(1 for j in jobs if j[0]["groups"][0]["cfg"]["kind"] == "shampoo"), sum(1 for j in jobs if j[0]["groups"][0]["cfg"]["kind"] == "soap")],
            "grafting none/sgd/adagrad/rmsprop/adam": [sum(1 for j in jobs if j[0]["groups"][0]["cfg"]["graft"] == g) for g in (None, "sgd", "adagrad", "rmsprop", "adam")],
            "momentum / Nesterov": [sum(1 for j in jobs if j[0]["groups"][0]["cfg"]["momentum"]), sum(1 for j in jobs if j[0]["groups"][0]["cfg"]["momentum"] and j[0]["groups"][0]["cfg"]["nesterov"])],
            "weight decay coupled / decoupled": [sum(1 for j in jobs if j[0]["groups"][0]["cfg"]["wd"] and not j[0]["groups"][0]["cfg"]["decoupled"]), sum(1 for j in jobs if j[0]["groups"][0]["cfg"]["wd"] and j[0]["groups"][0]["cfg"]["decoupled"])],
            "filtering (beta1 > 0)": sum(1 for j in jobs if j[0]["groups"][0]["cfg"]["betas"][0] > 0),
            "parameters split into several blocks": sum(1 for r in results if "error" not in r and r.get("max_blocks", 0) >= 2),
        },
        "not_exercised": ["inductor backend (outside the property's wording; no GPU)",
                          "bfloat16 / float16 parameters: under aot_eager PyTorch 2.5.1 decomposes torch._foreach_mul_(list, python_scalar) with a different rounding than the eager kernel, i.e. the backend does not preserve eager numerics there (the property's premise); float32 parameters differ from float64 only in storage rounding and are covered through C01's dtype sweep in eager mode"],
    })
    ck.assumptions += ["backends eager and aot_eager on CPU; float64 parameters"]


def replay(obj) -> bool:
    res = worker((obj["case"], tuple(obj["mode"])))
    print({k: v for k, v in res.items() if k != "rows"})
    return True
