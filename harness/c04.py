"""C04 - gradient-presence masks: absent parameters untouched, masked lists aligned, no cross-wiring.

Drives the real DistributedShampoo (default Distributor) over histories of gradient-presence patterns and
records, after every step: changed-flags of every parameter / block value / state tensor, data_ptr identity,
the group step counter, every masked list as local block indices, and bit-identity of the "focus" parameters
with a reference run in which the OTHER parameters hold different values and receive different gradients.
coqc compares all of it with the Gallina model Masks.group_step instantiated with update tokens (C04_agree)
and evaluates the certified checker C04_checkb on the same observations.
"""
from __future__ import annotations

import dataclasses
import multiprocessing as mp

from harness import common, gen_targets
from harness.common import Check, coq_Z, coq_bool

META = {
    "property_id": "C04",
    "design_ref": "DESIGN.md §4 C04",
    "technique": "Coq proof (invariant of the two selector caches by induction over the history; refinement of the masked/cached "
                 "group step to a block-wise specification, generic in the per-block computation) + correspondence of the model "
                 "with the real DistributedShampoo on seeded configurations x presence histories, evaluated by vm_compute",
    "level_text": "Theorems, for every per-block computation bstep, every layout (any number of parameters/blocks, any distributor "
                  "selector, any number of masked state lists) and every history of presence patterns: mask_cache_inv/mask_cache_current "
                  "(every cached masked list = indices of the current selector = compress of the full list), masked_lists_aligned (no zip "
                  "length error, k-th masked gradient meets the value and state of its own block), absent_block_untouched (Leibniz), "
                  "all_absent_no_step (counter unchanged iff selector all-false, else +1), present_block_uses_own_state and "
                  "present_block_noninterference (whole runs), group_run_eq_blockwise (refinement to the cache-free specification), "
                  "merge_and_block_spec, generate_pairwise_indices_spec, C04_checker_sound. All proved in full (nothing _partial). "
                  "The model is tied to /repo by running the real optimizer (Shampoo/SOAP x grafting None/SGD/AdaGrad/RMSprop/Adam x momentum/dampening x "
                  "beta1/beta3 x weight decay x dtype pairings f64/f32/bf16/f16 x gradient classes (generic, exactly zero, tiny, structured, non-contiguous); "
                  "1-5 parameters in one or two parameter groups, equal-shaped blocks, blocked parameters, mixed tensor orders) over 6-12 step histories "
                  "and comparing, inside coqc, per group: masked lists as index lists, selectors, counters, changed-flags of every tensor and bit-identity with a "
                  "reference run whose other parameters hold different data and (3 of 4 cases) follow a different presence history. "
                  "The classes generated in a run are counted under coverage.quantifier_audit.",
    "level_note": "Trusted: Coq kernel+vm_compute; the hand-written model (checked against the code only on the generated configurations "
                  "and histories; default Distributor only - the model's distributor selector is generic but other distributors are tied by C06-C08); "
                  "tensor identity observed through data_ptr/id; the per-block computation itself is abstract here (C01 instantiates it). "
                  "The group counter tensor stored under state[params[0]]['step'] is treated as group state, not as state of parameter 0.",
    "ready": True,
}

BIG = 999999  # index reported for a tensor of a masked list that is not found in the local list

PATTERN_KINDS = ("all", "none", "alternating", "random", "never_one", "change_every_step", "mixed")
# generation cycle: the two constant patterns once, the others twice
KIND_CYCLE = PATTERN_KINDS + PATTERN_KINDS[2:]
SHAPES_EQUAL = ([3, 3], [4, 3], [6, 3], [3], [5], [2, 3, 2], [3, 6])


# --------------------------------------------------------------------------------------
# case generation


def gen_history(rng, kind: str, n: int, steps: int) -> list[list[bool]]:
    if kind == "all":
        return [[True] * n for _ in range(steps)]
    if kind == "none":
        return [[False] * n for _ in range(steps)]
    if kind == "alternating":
        ph = rng.randint(0, 1)
        return [[(i + t + ph) % 2 == 0 for i in range(n)] for t in range(steps)]
    if kind == "random":
        return [[rng.random() < 0.55 for _ in range(n)] for _ in range(steps)]
    if kind == "never_one":
        k = rng.randrange(n)
        return [[(i != k) and rng.random() < 0.7 for i in range(n)] for _ in range(steps)]
    if kind == "change_every_step":
        h, prev = [], None
        for _ in range(steps):
            while True:
                cur = [rng.random() < 0.5 for _ in range(n)]
                # prefer same-cardinality different patterns: the case a `sum(selector)` comparison cannot see
                if prev is not None and rng.random() < 0.5:
                    cur = prev[:]
                    rng.shuffle(cur)
                if cur != prev:
                    break
            h.append(cur)
            prev = cur
        return h
    # mixed: blocks of different kinds, with all-absent steps in between
    h = []
    while len(h) < steps:
        k = rng.choice(("all", "none", "alternating", "random", "change_every_step"))
        h += gen_history(rng, k, n, rng.randint(1, 3))
    return h[:steps]


def gen_history_b(rng, history, focus, groups, same: bool):
    """Presence history of the reference run: identical on the focus parameters; on the others it may differ, as long as
    every GROUP steps at the same moments (some member present in A iff some member present in B)."""
    if same:
        return [row[:] for row in history]
    hb = []
    for row in history:
        new = row[:]
        for g in groups:
            others = [p for p in g if not focus[p]]
            if not others:
                continue
            if any(row[p] for p in g if focus[p]):
                for p in others:
                    new[p] = rng.random() < 0.5
            elif any(row[p] for p in others):
                for p in others:
                    new[p] = rng.random() < 0.5
                if not any(new[p] for p in others):
                    new[rng.choice(others)] = True
            # else: nobody present in this group: stays all-absent
        hb.append(new)
    return hb


DEFAULTS = {"freq": 1, "dampening": 0.0, "beta3": None, "pdtype": "float64", "fdtype": "float64", "ignored_dims": [],
            "inv_root_override": 0, "grad_kind": "random", "groups": None, "group_lrs": None, "same_presence_b": False, "target": None}


def finish_spec(rng, spec: dict) -> dict:
    """Derived fields: groups default, reference-run history, comparison mode."""
    n = len(spec["shapes"])
    for k, v in DEFAULTS.items():
        spec.setdefault(k, v)
    if spec["groups"] is None:
        spec["groups"] = [list(range(n))]
    foc = spec.get("focus")
    if foc is None:
        foc = [rng.random() < 0.5 for _ in range(n)]
        if n > 1 and all(foc):
            foc[rng.randrange(n)] = False
        if not any(foc):
            foc[rng.randrange(n)] = True
        spec["focus"] = foc
    spec["historyB"] = gen_history_b(rng, spec["history"], spec["focus"], spec["groups"], spec["same_presence_b"])
    # strict comparison ("a present block moves") only where that is certain
    spec["strict"] = bool(
        spec["pdtype"] == "float64" and spec["fdtype"] == "float64" and spec["grad_kind"] in ("random", "noncontig")
        and spec["freq"] == 1 and spec["lr"] > 0 and not spec["ignored_dims"] and spec["inv_root_override"] == 0
        and not (spec["graft"] is None and spec["precond"] == "shampoo" and spec["start"] != 1)
        and not spec["group_lrs"] and not spec["dampening"] and spec["beta3"] is None)
    return spec


def gen_case(rng, idx: int, kind: str, **over) -> dict:
    n = over.pop("n", None) or rng.randint(2, 5)
    base = rng.choice(SHAPES_EQUAL)
    shapes = [list(base) for _ in range(rng.randint(2, min(3, n)))] if n >= 2 else [list(base)]
    while len(shapes) < n:
        shapes.append(list(rng.choice(SHAPES_EQUAL)))
    rng.shuffle(shapes)
    precond = rng.choice(("shampoo", "shampoo", "soap_eigh", "soap_qr"))
    graft = rng.choice((None, "sgd", "adagrad", "rmsprop", "adam"))
    # without grafting a Shampoo step before the first root computation is a zero step: start at 1 then
    start = 1 if (graft is None and precond == "shampoo") else rng.randint(1, 3)
    momentum = rng.choice((0.0, 0.5))
    beta1 = rng.choice((0.0, 0.9))
    spec = {
        "idx": idx, "kind": kind, "shapes": shapes,
        "precond": precond, "graft": graft, "start": start,
        "momentum": momentum, "nesterov": bool(momentum and rng.random() < 0.4),
        "dampening": rng.choice((0.0, 0.0, 0.25)) if momentum else 0.0,
        "beta1": beta1, "beta2": rng.choice((1.0, 0.99)),
        "beta3": rng.choice((None, None, 0.5)) if beta1 else None,
        "wd": rng.choice((0.0, 0.0, 0.01)), "decoupled": rng.random() < 0.5,
        "maxdim": rng.choice((2, 3, 3, 4)), "merge": rng.random() < 0.5,
        "bias": rng.random() < 0.5, "lr": rng.choice((0.01, 0.05)),
        "seed": rng.randrange(1 << 30),
        "same_presence_b": rng.random() < 0.25,
    }
    steps = rng.randint(6, 12)
    spec["history"] = gen_history(rng, kind, n, steps)
    spec.update(over)
    if "shapes" in over:
        n2 = len(spec["shapes"])
        if n2 != n or "history" not in over:
            spec["history"] = over.get("history") or gen_history(rng, kind, n2, steps)
    return finish_spec(rng, spec)


def gen_targeted(rng, start_idx: int) -> list[dict]:
    """The input classes the property's quantifier names or plainly allows and that random generation reaches rarely or never
    (quantifier audit): a few cases each, every run."""
    out = []

    def add(target, kind="random", **over):
        out.append(gen_case(rng, start_idx + len(out), kind, target=target, **over))

    T, F = True, False
    for _ in range(4):   # C04D class: blocks of different tensor order, the lower-index one absent while a later one steps
        add("mixed_order_absent_predecessor", shapes=[[3], [3, 3], [3], [2, 3, 2]], precond="shampoo", merge=False, maxdim=3,
            history=[[F, T, F, T], [T, F, T, F], [F, F, T, T], [F, T, T, F], [T, T, F, F], [F, F, F, T], [F, T, F, F], [T, T, T, T]],
            focus=[F, T, F, T], same_presence_b=False)
    for k in range(3):   # two equal-shaped parameters whose gradients alternate (same count, different pattern)
        add("two_equal_params_alternating", kind="alternating", n=2, shapes=[[3, 3], [3, 3]] if k < 2 else [[4, 3], [4, 3]], focus=[T, F] if k % 2 else [F, T])
    for _ in range(3):   # a parameter whose first gradient arrives after the others have stepped many times
        hist = [[T, F, T]] * 5 + [[T, T, T], [F, T, F], [T, T, F]]
        add("late_first_gradient", shapes=[[3, 3], [3, 3], [4, 3]], history=[r[:] for r in hist])
    for _ in range(2):   # the first steps of the run are all-absent
        add("all_absent_first_steps", shapes=[[3, 3], [3, 3]], history=[[F, F], [F, F], [T, F], [F, T], [F, F], [T, T]])
    for k in range(6):   # twin parameter groups (identical hyperparameters / different lr), one group idle while the other steps
        add("two_param_groups", n=4, groups=[[0, 1], [2, 3]], group_lrs=None if k < 4 else [0.01, 0.05],
            shapes=[[3, 3], [4, 3], [3, 3], [4, 3]],
            history=[[T, F, F, F], [F, T, F, F], [F, F, T, T], [F, F, F, F], [T, T, F, T], [F, F, T, F], [T, F, T, F], [F, T, F, T]],
            focus=[T, F, T, F] if k % 2 else [F, T, F, T])
    for _ in range(2):
        add("single_parameter_group", n=1, shapes=[[6, 3]], focus=[T], history=[[T], [F], [F], [T], [T], [F]])
    for pd, fd in (("float32", "float32"), ("float32", "float64"), ("float64", "float32"), ("bfloat16", "float32"), ("float16", "float32"),
                   ("bfloat16", "float64"), ("float32", "float32"), ("bfloat16", "float32")) * 2:
        extra = {"precond": "shampoo", "graft": rng.choice(("sgd", "adagrad")), "start": 1} if pd == "float16" else {}   # SOAP overflows binary16
        add(f"dtype_{pd}_{fd}", kind=rng.choice(("alternating", "change_every_step", "random")), pdtype=pd, fdtype=fd, **extra)
    for gk in ("zero_param", "zero_block", "zero_param", "zero_block", "tiny", "tiny", "diag", "rank1", "deadrow", "constant") * 2:
        add(f"grad_{gk}", kind=rng.choice(("alternating", "change_every_step", "random")), grad_kind=gk)
    for _ in range(3):
        add("grad_noncontig", kind=rng.choice(("alternating", "change_every_step")), grad_kind="noncontig", merge=False,
            shapes=[[3, 3], [4, 3], [3, 3], [3, 6]])
    for k in range(4):   # same, with use_merge_dims fusing dimensions: the blocked gradient cannot be a view of the gradient (reshape copies)
        add("grad_noncontig_merged", kind=rng.choice(("alternating", "change_every_step", "random")), grad_kind="noncontig", merge=True,
            maxdim=6 if k % 2 == 0 else 4, shapes=[[2, 3], [2, 3], [2, 3, 2], [3, 2]] if k % 2 == 0 else [[2, 2], [2, 2], [4], [2, 2, 3]])
    for fr in (2, 3, 2):
        add(f"precondition_frequency_{fr}", kind=rng.choice(("alternating", "change_every_step", "random")), freq=fr, start=fr * rng.randint(1, 2))
    add("start_beyond_history", kind="change_every_step", graft="adam", start=100)
    add("start_beyond_history", kind="alternating", graft="sgd", start=100)
    add("lr_zero", kind="change_every_step", lr=0.0)
    for _ in range(2):
        add("ignored_dims", kind="change_every_step", ignored_dims=[0], merge=False)
    for _ in range(2):
        add("inv_root_override", kind="change_every_step", inv_root_override=2, precond="shampoo")
    for _ in range(2):   # every element its own block / no blocking at all
        add("maxdim_1_many_blocks", kind="change_every_step", maxdim=1, shapes=[[2, 3], [2, 3], [3]])
        add("maxdim_large_single_blocks", kind="change_every_step", maxdim=64)
    add("size_one_dims", kind="change_every_step", shapes=[[1, 3], [1, 3], [1], [3, 1]])
    add("size_one_dims", kind="alternating", shapes=[[1], [1], [1, 1]])
    return out


# --------------------------------------------------------------------------------------
# implementation side


def make_optimizer(spec, params):
    import torch
    from distributed_shampoo.distributed_shampoo import DistributedShampoo
    from distributed_shampoo import shampoo_types as st

    graft = {None: None, "sgd": st.SGDGraftingConfig(), "adagrad": st.AdaGradGraftingConfig(epsilon=1e-8),
             "rmsprop": st.RMSpropGraftingConfig(beta2=0.9, epsilon=1e-8), "adam": st.AdamGraftingConfig(beta2=0.9, epsilon=1e-8)}[spec["graft"]]
    ign = list(spec["ignored_dims"])
    pc = {"shampoo": st.ShampooPreconditionerConfig(ignored_dims=ign),
          "soap_eigh": st.EigenvalueCorrectedShampooPreconditionerConfig(ignored_dims=ign),
          "soap_qr": st.EigenvalueCorrectedShampooPreconditionerConfig(amortized_computation_config=st.DefaultSOAPConfig.amortized_computation_config, ignored_dims=ign),
          }[spec["precond"]]
    groups = []
    for g, pidx in enumerate(spec["groups"]):
        d = {"params": [params[p] for p in pidx]}
        if spec["group_lrs"]:
            d["lr"] = spec["group_lrs"][g]
        groups.append(d)
    kw = {}
    if spec["beta3"] is not None:
        kw["beta3"] = spec["beta3"]
    return DistributedShampoo(
        groups, lr=spec["lr"], betas=(spec["beta1"], spec["beta2"]), epsilon=1e-8, momentum=spec["momentum"], dampening=spec["dampening"],
        weight_decay=spec["wd"], max_preconditioner_dim=spec["maxdim"], precondition_frequency=spec["freq"],
        start_preconditioning_step=spec["start"], use_nesterov=spec["nesterov"], use_bias_correction=spec["bias"],
        use_decoupled_weight_decay=spec["decoupled"], grafting_config=graft, use_merge_dims=spec["merge"],
        inv_root_override=spec["inv_root_override"],
        preconditioner_dtype=getattr(torch, spec["fdtype"]), preconditioner_config=pc, **kw)


def walk_tensors(obj, path=()):
    """Every tensor reachable from a state entry: dicts, tuples/lists, dataclass fields (Kronecker factor states)."""
    import torch
    if isinstance(obj, torch.Tensor):
        yield path, obj
    elif isinstance(obj, dict):
        for k, v in obj.items():
            yield from walk_tensors(v, path + (str(k),))
    elif isinstance(obj, (tuple, list)):
        for i, v in enumerate(obj):
            yield from walk_tensors(v, path + (str(i),))
    elif dataclasses.is_dataclass(obj) and not isinstance(obj, type):
        for f in dataclasses.fields(obj):
            yield from walk_tensors(getattr(obj, f.name), path + (f.name,))


class GroupView:
    """One parameter group of one optimizer instance, with everything needed to observe it from outside."""

    def __init__(self, probe, g, pidx):
        st = probe.st
        self.probe, self.g, self.pidx, self.st = probe, g, list(pidx), st
        self.params = [probe.params[p] for p in pidx]
        self.sl = probe.opt._per_group_state_lists[g]
        self.dist = self.sl[st.DISTRIBUTOR]
        self.nbs = list(self.dist._global_num_blocks_per_param)
        self.blocks = list(self.dist._global_blocked_params)          # default Distributor: local = global
        assert tuple(self.dist._distributor_selector) == (True,) * len(self.blocks)
        assert probe.opt.state[self.params[0]][st.STEP] is self.sl[st.STEP]
        self.block_owner = [(k, j) for k, nb in enumerate(self.nbs) for j in range(nb)]   # (position in the group, block)

    def block_state(self, i):
        k, j = self.block_owner[i]
        return self.probe.opt.state[self.params[k]][f"block_{j}"]

    def state_tensors(self, i):
        return [(path, t) for path, t in walk_tensors(self.block_state(i))]

    def leftover_state(self):
        """State entries that are not per-block (only the group counter is expected)."""
        return [str(k) for p in self.params for k in self.probe.opt.state[p] if not str(k).startswith("block_")]

    def snapshot(self):
        snap = {"params": [(p.detach().clone(), p.data_ptr()) for p in self.params], "blocks": []}
        for i, b in enumerate(self.blocks):
            sts = [(path, t.detach().clone(), t.data_ptr(), id(t)) for path, t in self.state_tensors(i)]
            snap["blocks"].append((b.detach().clone(), b.data_ptr(), sts))
        return snap

    @staticmethod
    def _index_in(items, local, key):
        keys = [key(x) for x in local]
        out = []
        for x in items:
            k = key(x)
            out.append(keys.index(k) if k in keys else BIG)
        return out

    def masked_lists(self):
        from itertools import compress
        st = self.st
        tkey = lambda t: (t.data_ptr(), tuple(t.shape))  # noqa: E731
        dparams = self._index_in(self.dist._local_masked_blocked_params, self.dist._local_blocked_params, tkey)
        oparams = self._index_in(self.sl[st.MASKED_BLOCKED_PARAMS], self.dist._local_blocked_params, tkey)
        comps, names = [], []
        spl = self.sl[st.SHAMPOO_PRECONDITIONER_LIST]
        comps.append(self._index_in(spl._masked_kronecker_factors_list, spl._local_kronecker_factors_list, id))
        names.append("kronecker_factors")
        if hasattr(spl, "_masked_failed_amortized_computation_counter_index_list"):
            comps.append([int(x) for x in spl._masked_failed_amortized_computation_counter_index_list])
            names.append("failed_counter_index")
        gpl = self.sl.get(st.GRAFTING_PRECONDITIONER_LIST)
        if gpl is not None and hasattr(gpl, "_masked_preconditioner_list"):
            comps.append(self._index_in(gpl._masked_preconditioner_list, gpl._local_preconditioner_list, tkey))
            names.append("grafting")
        if st.FILTERED_GRAD_LIST in self.sl:
            comps.append(self._index_in(self.sl[st.MASKED_FILTERED_GRAD_LIST], self.sl[st.FILTERED_GRAD_LIST], tkey))
            names.append("filtered_grad")
        if st.MOMENTUM_LIST in self.sl:
            comps.append(self._index_in(self.sl[st.MASKED_MOMENTUM_LIST], self.sl[st.MOMENTUM_LIST], tkey))
            names.append("momentum")
        # value lists (tensor order, root, preconditioned-dims selector) carry no identity: they must equal the
        # compress of their local list by the selector the Kronecker-factor list was compressed with
        ksel = [i in comps[0] for i in range(len(spl._local_kronecker_factors_list))]
        lens_ok = True
        for a in ("order", "root", "preconditioned_dims_selector"):
            m, l = getattr(spl, f"_masked_{a}_list", None), getattr(spl, f"_local_{a}_list", None)
            if m is not None and l is not None:
                lens_ok = lens_ok and tuple(m) == tuple(compress(l, ksel))
        return dparams, oparams, comps, names, lens_ok


class Probe:
    def __init__(self, spec, values):
        import torch
        from distributed_shampoo import shampoo_types as st
        self.st = st
        self.params = [torch.nn.Parameter(v.clone()) for v in values]
        self.opt = make_optimizer(spec, self.params)
        assert len(self.opt._per_group_state_lists) == len(spec["groups"])
        self.groups = [GroupView(self, g, pidx) for g, pidx in enumerate(spec["groups"])]


def make_grad(kind, shape, rnd, rng_t, dtype):
    """One gradient of the requested class (float64 master copy, cast by the caller)."""
    import torch
    g = rnd(shape)
    if kind == "zero_param":          # a PRESENT gradient that is exactly zero
        if torch.rand((), generator=rng_t).item() < 0.4:
            g = torch.zeros_like(g)
    elif kind == "zero_block":        # zero on the leading part only: some block of the parameter sees an exactly-zero gradient
        if torch.rand((), generator=rng_t).item() < 0.5 and g.dim() >= 1 and g.shape[0] >= 1:
            k = max(1, g.shape[0] // 2)
            g[:k] = 0
    elif kind == "tiny":
        g = g * 2.0 ** -17             # ~1e-5, exactly representable
    elif kind == "diag":              # exactly diagonal (where the tensor is a matrix): diagonal Kronecker factors
        if g.dim() == 2:
            m = torch.zeros_like(g)
            for i in range(min(g.shape)):
                m[i, i] = g[i, i]
            g = m
    elif kind == "rank1":
        if g.dim() == 2:
            g = torch.outer(g[:, 0], g[0, :].sign()) if g.shape[1] else g
    elif kind == "deadrow":           # a dead coordinate: one row never receives signal
        if g.dim() >= 1 and g.shape[0] > 1:
            g[0] = 0
    elif kind == "constant":
        g = torch.full_like(g, 0.5)
    return g


def impl_run(spec) -> dict:
    """Run case `spec` (run A and its reference run B in lockstep); returns, per parameter group, the observations."""
    import logging
    import torch
    logging.disable(logging.CRITICAL)
    torch.set_num_threads(1)
    n = len(spec["shapes"])
    gen = torch.Generator().manual_seed(spec["seed"])
    dtype = getattr(torch, spec["pdtype"])

    def rnd(shape):
        # small dyadic rationals, never zero
        t = torch.randint(1, 64, shape, generator=gen, dtype=torch.int64).to(torch.float64) / 16.0
        s = torch.randint(0, 2, shape, generator=gen, dtype=torch.int64).to(torch.float64) * 2 - 1
        return t * s

    def layout(g):
        # a gradient with non-default memory layout (same values): transposed storage for matrices, strided storage otherwise
        if spec["grad_kind"] != "noncontig":
            return g.clone()
        if g.dim() == 2:
            return g.t().contiguous().t()
        big = torch.zeros(tuple(2 * d for d in g.shape), dtype=g.dtype)
        view = big[tuple(slice(None, None, 2) for _ in g.shape)]
        view.copy_(g)
        return view

    valsA = [rnd(sh).to(dtype) for sh in spec["shapes"]]
    # the reference run's other parameters differ from run A in every element (and stay apart: steps are small)
    valsB = [valsA[p] if spec["focus"][p] else (valsA[p].double() + 8.0 + rnd(spec["shapes"][p]).abs()).to(dtype) for p in range(n)]
    out = {"error": None, "groups": []}
    try:
        A, B = Probe(spec, valsA), Probe(spec, valsB)
        for gv in A.groups:
            out["groups"].append({"nbs": gv.nbs, "block_shapes": [list(b.shape) for b in gv.blocks], "block_orders": [b.dim() for b in gv.blocks],
                                  "leftover_state": gv.leftover_state(), "comp_names": None, "steps": [], "pidx": gv.pidx,
                                  "history": [[row[p] for p in gv.pidx] for row in spec["history"]],
                                  "historyB": [[row[p] for p in gv.pidx] for row in spec["historyB"]],
                                  "focus": [spec["focus"][p] for p in gv.pidx]})
        zero_present = 0
        for t, (present, presentB) in enumerate(zip(spec["history"], spec["historyB"])):
            for p in range(n):
                gA = make_grad(spec["grad_kind"], spec["shapes"][p], rnd, gen, dtype) if (present[p] or (presentB[p] and spec["focus"][p])) else None
                A.params[p].grad = layout(gA.to(dtype)) if present[p] else None
                if presentB[p]:
                    gB = gA if spec["focus"][p] else make_grad(spec["grad_kind"], spec["shapes"][p], rnd, gen, dtype)
                    B.params[p].grad = layout(gB.to(dtype))
                else:
                    B.params[p].grad = None
                if present[p] and not bool(gA.any()):
                    zero_present += 1
            before = [gv.snapshot() for gv in A.groups]
            A.opt.step()
            B.opt.step()
            for gi, (gv, gb) in enumerate(zip(A.groups, B.groups)):
                bef = before[gi]
                ob = {"counter": int(gv.sl[gv.st.STEP].item()), "counterB": int(gb.sl[gb.st.STEP].item())}
                ob["pchg"] = [not torch.equal(v0, p.detach()) for (v0, _), p in zip(bef["params"], gv.params)]
                pptr = [p.data_ptr() == ptr0 for (_, ptr0), p in zip(bef["params"], gv.params)]
                vchg, schg, ptr, same = [], [], [], []
                for i, blk in enumerate(gv.blocks):
                    v0, bptr0, sts0 = bef["blocks"][i]
                    vchg.append(not torch.equal(v0, blk))
                    now = gv.state_tensors(i)
                    ok = blk.data_ptr() == bptr0 and pptr[gv.block_owner[i][0]] and len(now) == len(sts0)
                    flags = []
                    for (path0, t0, ptr0, id0), (path1, t1) in zip(sts0, now):
                        ok = ok and path0 == path1 and t1.data_ptr() == ptr0 and id(t1) == id0 and t1.dtype == t0.dtype
                        flags.append(not (t0.shape == t1.shape and torch.equal(t0, t1)))
                    schg.append(flags)
                    ptr.append(bool(ok))
                    nowB = gb.state_tensors(i)
                    eq = torch.equal(blk, gb.blocks[i]) and len(now) == len(nowB)
                    for (pa, ta), (pb, tb) in zip(now, nowB):
                        eq = eq and pa == pb and ta.shape == tb.shape and ta.dtype == tb.dtype and torch.equal(ta, tb)
                    same.append(bool(eq))
                ob.update(vchg=vchg, schg=schg, ptr=ptr, same=same)
                dparams, oparams, comps, names, lens_ok = gv.masked_lists()
                ob.update(dparams=dparams, oparams=oparams, comps=comps, lens_ok=lens_ok)
                out["groups"][gi]["comp_names"] = names
                d = gv.dist
                ob["dprev"] = [bool(b) for b in (d._previous_global_grad_selector or ())]
                ob["lsel"] = [bool(b) for b in d.local_grad_selector]
                ob["oprev"] = [bool(b) for b in (gv.sl[gv.st.PREVIOUS_GRAD_SELECTOR] or ())]
                ob["finite"] = all(bool(torch.isfinite(p).all()) for p in gv.params) and \
                    all(bool(torch.isfinite(t1).all()) for i in range(len(gv.blocks)) for _, t1 in gv.state_tensors(i) if t1.is_floating_point())
                out["groups"][gi]["steps"].append(ob)
        out["zero_present_grads"] = zero_present
    except Exception as ex:  # a raising step on a valid history is itself a disagreement with the model
        import traceback
        out["error"] = f"{type(ex).__name__}: {ex}"[:300]
        out["trace"] = traceback.format_exc()[-1500:]
    return out


# --------------------------------------------------------------------------------------
# Coq side


def bl(xs) -> str:
    return "[" + ";".join("T" if x else "F" for x in xs) + "]"


def nl(xs) -> str:
    return "[" + ";".join(str(int(x)) for x in xs) + "]"


HEADER = """From Coq Require Import ZArith List Bool String.
From Shampoo Require Import Show Masks MasksProofs MasksChecker.
Import ListNotations.
Definition T := true. Definition F := false.
Definition o (c : Z) (dprev lsel oprev : list bool) (dp op : list nat) (comps : list (list nat))
             (pchg vchg : list bool) (schg : list (list bool)) (ptr same : list bool) : obs_step :=
  {| ob_counter := c; ob_dprev := dprev; ob_lsel := lsel; ob_oprev := oprev; ob_dparams := dp; ob_oparams := op;
     ob_comps := comps; ob_pchg := pchg; ob_vchg := vchg; ob_schg := schg; ob_ptr := ptr; ob_same := same |}.
Definition both (strict : bool) (lay : layout) (focus : list bool) (h hB : list (list bool)) (obs : list obs_step) : list bool :=
  [C04_agree_gen strict lay focus h hB obs; C04_checkb lay focus h obs].
"""


def _numel(sh) -> int:
    n = 1
    for d in sh:
        n *= d
    return n


def coq_case(spec, gres) -> str:
    """Coq term (list of two booleans: model agrees, checker accepts) for one parameter group of one case."""
    ncomp = len(gres["steps"][0]["comps"]) if gres["steps"] else 1
    nb = sum(gres["nbs"])
    lay = f"{{| l_nbs := {nl(gres['nbs'])}; l_dsel := {bl([True] * nb)}; l_nextra := {ncomp - 1} |}}"
    obs = []
    for ob in gres["steps"]:
        extra_ok = ob["lens_ok"] and ob["counter"] == ob["counterB"]
        ptr = [x and extra_ok for x in ob["ptr"]]   # anything else the model predicts "as expected" is folded into ptr
        obs.append(f"o {coq_Z(ob['counter'])} {bl(ob['dprev'])} {bl(ob['lsel'])} {bl(ob['oprev'])} {nl(ob['dparams'])} {nl(ob['oparams'])} "
                   f"[{';'.join(nl(c) for c in ob['comps'])}] {bl(ob['pchg'])} {bl(ob['vchg'])} "
                   f"[{';'.join(bl(f) for f in ob['schg'])}] {bl(ptr)} {bl(ob['same'])}")
    h = "[" + ";".join(bl(p) for p in gres["history"]) + "]"
    hb = "[" + ";".join(bl(p) for p in gres["historyB"]) + "]"
    # a one-element block can stay put by exact cancellation (momentum against the new direction): never strict there
    strict = spec["strict"] and all(_numel(sh) >= 2 for sh in gres["block_shapes"])
    return f"both {'T' if strict else 'F'} ({lay}) {bl(gres['focus'])} {h} {hb} [" + ";\n   ".join(obs) + "]"


SPEC_KEYS = ("kind", "target", "shapes", "groups", "group_lrs", "precond", "graft", "start", "freq", "momentum", "nesterov", "dampening", "beta1", "beta2",
             "beta3", "wd", "decoupled", "maxdim", "merge", "bias", "lr", "pdtype", "fdtype", "ignored_dims", "inv_root_override", "grad_kind",
             "seed", "history", "historyB", "focus", "strict", "same_presence_b")


def public_spec(spec) -> dict:
    return {k: spec[k] for k in SPEC_KEYS}


def first_bad_step(spec, gres) -> str:
    """Human-readable description of the first observation that contradicts the property (harness-side, for the report only)."""
    prev = 0
    for t, (present, ob) in enumerate(zip(gres["history"], gres["steps"])):
        sel = [present[p] for p, nbp in enumerate(gres["nbs"]) for _ in range(nbp)]
        idx = [i for i, b in enumerate(sel) if b]
        for i, b in enumerate(sel):
            if not b and (ob["vchg"][i] or any(ob["schg"][i]) or not ob["ptr"][i]):
                what = "value" if ob["vchg"][i] else ("state tensor" if any(ob["schg"][i]) else "tensor identity")
                return f"step {t + 1}: block {i} has no gradient but its {what} changed"
        exp = prev + 1 if any(sel) else prev
        if ob["counter"] != exp:
            return f"step {t + 1}: counter {ob['counter']}, expected {exp}"
        prev = ob["counter"]
        if any(sel):   # the masked lists are only used when the per-group step runs
            for nm, lst in [("distributor masked params", ob["dparams"]), ("MASKED_BLOCKED_PARAMS", ob["oparams"])] + \
                           list(zip(gres.get("comp_names") or [], ob["comps"])):
                if lst != idx:
                    return f"step {t + 1}: masked list `{nm}` refers to local blocks {lst}, the selector selects {idx}"
            if ob["lsel"] != sel or ob["oprev"] != sel:
                return f"step {t + 1}: cached selector {ob['lsel']}/{ob['oprev']} is not the step's selector {sel}"
        foc = [gres["focus"][p] for p, nbp in enumerate(gres["nbs"]) for _ in range(nbp)]
        for i, f in enumerate(foc):
            if f and not ob["same"][i]:
                return (f"step {t + 1}: block {i} differs from the reference run although its own data and gradient history are identical "
                        f"(only the other parameters' data / presence differ): it was updated with something that is not its own")
    return "no harness-side explanation (see checker)"


def sels_of(gres):
    return [tuple(ob["lsel"]) for ob in gres["steps"]]


def audit_classes(spec, res) -> set[str]:
    """Input classes (quantifier audit) this executed case belongs to - measured on what was actually run."""
    cl = set()
    n = len(spec["shapes"])
    hist = spec["history"]
    if spec["target"]:
        cl.add("targeted:" + spec["target"])
    for gres in res["groups"]:
        h = gres["history"]
        sels = sels_of(gres)
        if any(not any(r) for r in h):
            cl.add("history: all-absent step")
        if h and not any(h[0]):
            cl.add("history: first step all-absent")
        if any(any(r) for r in h) and any(not any(r[k] for r in h) for k in range(len(h[0]))):
            cl.add("history: a parameter never receives a gradient while others do")
        if len(sels) > 1 and all(a != b for a, b in zip(sels, sels[1:])):
            cl.add("history: selector changes at every step")
        if any(a != b and sum(a) == sum(b) and sum(a) > 0 for a, b in zip(sels, sels[1:])):
            cl.add("history: same-cardinality different-pattern change")
        for k in range(len(gres["focus"])):
            col = [r[k] for r in h]
            if True in col and col.index(True) >= 4 and sum(1 for r in h[:col.index(True)] if any(r)) >= 3:
                cl.add("history: first gradient of a parameter after >=3 group steps")
        if gres["history"] != gres["historyB"]:
            cl.add("reference run: other parameters follow a different presence history")
        else:
            cl.add("reference run: same presence, different data")
        # blocks
        off, owners, orders_by_block = 0, {}, gres["block_orders"]
        for p, nbp in enumerate(gres["nbs"]):
            for j in range(nbp):
                owners.setdefault(tuple(gres["block_shapes"][off + j]), set()).add(p)
            off += nbp
        if any(len(ps) > 1 for ps in owners.values()):
            cl.add("layout: equal-shaped blocks in different parameters")
        if any(nbp > 1 for nbp in gres["nbs"]):
            cl.add("layout: a parameter split into several blocks")
        if all(nbp == 1 for nbp in gres["nbs"]):
            cl.add("layout: no parameter is blocked")
        if len(set(orders_by_block)) > 1:
            cl.add("layout: blocks of different tensor order in one group")
            for sel in sels:
                for i, b in enumerate(sel):
                    if b and any((not sel[j]) and orders_by_block[j] != orders_by_block[i] for j in range(i)):
                        cl.add("layout+history: a present block preceded by an absent block of another order (masked position != local position, per-block metadata differ)")
        if len(gres["focus"]) == 1:
            cl.add("layout: group with a single parameter")
        if any(1 in sh for sh in gres["block_shapes"]):
            cl.add("layout: block with a size-1 dimension")
    if len(res["groups"]) > 1:
        cl.add("groups: two parameter groups in one optimizer" + (" (twin hyperparameters)" if not spec["group_lrs"] else " (different lr)"))
        for t in range(len(hist)):
            act = [any(g["history"][t]) for g in res["groups"]]
            if any(act) and not all(act):
                cl.add("groups: one group all-absent while the other steps")
    cl.add(f"dtype: parameter {spec['pdtype']} / factor matrices {spec['fdtype']}")
    if spec["grad_kind"] != "random":
        cl.add("gradient values: " + {"zero_param": "present gradient exactly zero (whole parameter)", "zero_block": "present gradient exactly zero on one block",
                                      "tiny": "magnitude ~1e-5", "diag": "exactly diagonal", "rank1": "rank one", "deadrow": "a dead coordinate (zero row)",
                                      "constant": "constant", "noncontig": "non-default memory layout (transposed / strided)"}[spec["grad_kind"]])
    if spec["grad_kind"] == "noncontig" and spec["merge"]:
        for gres in res["groups"]:
            off = 0
            for k, nbp in enumerate(gres["nbs"]):
                rank = sum(1 for d in spec["shapes"][gres["pidx"][k]] if d != 1)
                if any(o < rank for o in gres["block_orders"][off:off + nbp]):
                    cl.add("gradient values: non-default memory layout with use_merge_dims fusing dimensions (blocked gradient is a copy)")
                off += nbp
    if res.get("zero_present_grads"):
        cl.add("gradient values: some present gradient was exactly zero in this run")
    cl.add(f"config: preconditioner {spec['precond']}")
    cl.add(f"config: grafting {spec['graft']}")
    if spec["momentum"]:
        cl.add("config: momentum" + (" + nesterov" if spec["nesterov"] else "") + (" + dampening" if spec["dampening"] else ""))
    if spec["beta1"]:
        cl.add("config: beta1 != 0 (filtered gradient state)" + (" with beta3 != beta1" if spec["beta3"] is not None else ""))
    if spec["wd"]:
        cl.add("config: weight decay " + ("decoupled" if spec["decoupled"] else "L2"))
    if spec["freq"] > 1:
        cl.add("config: precondition_frequency > 1 (steps between two root computations)")
    if spec["start"] > len(hist):
        cl.add("config: start_preconditioning_step beyond the history (grafting only)")
    if spec["lr"] == 0:
        cl.add("config: lr = 0")
    if spec["ignored_dims"]:
        cl.add("config: ignored_dims (blocks with fewer / no Kronecker factors)")
    if spec["inv_root_override"]:
        cl.add("config: inv_root_override")
    if spec["maxdim"] == 1:
        cl.add("layout: max_preconditioner_dim = 1 (every element its own block)")
    cl.add("comparison: " + ("strict (present block must move)" if spec["strict"] else "non-strict (present block may stay)"))
    cl.add("process: two optimizer instances interleaved in one process (module-level / cached state)")
    return cl


def run(ck: Check) -> None:
    common.assert_repo_imports()
    ck.coq_props()
    gen_targets.run(ck)          # translator tie: Gallina regenerated from the source + coq/gen/EquivC04.v
    thorough = ck.tier == "thorough"
    ncases = 3000 if thorough else 176
    specs = []
    for i in range(ncases):
        kind = KIND_CYCLE[i % len(KIND_CYCLE)]
        specs.append(gen_case(ck.rng, i, kind))
    specs += gen_targeted(ck.rng, len(specs))
    if thorough:   # the targeted classes again with fresh randomness
        for _ in range(5):
            specs += gen_targeted(ck.rng, len(specs))
    with mp.get_context("fork").Pool(16) as pool:
        results = pool.map(impl_run, specs, chunksize=2)

    raised = [(s, r) for s, r in zip(specs, results) if r["error"] is not None]
    units = []   # (spec, result, group result) - one Coq comparison per parameter group
    nonfinite = 0
    for s, r in zip(specs, results):
        if r["error"] is not None:
            continue
        if not all(ob["finite"] for g in r["groups"] for ob in g["steps"]):
            nonfinite += 1     # NaN/inf in low-precision storage: bit-identity with the reference run is meaningless there
            continue
        for g in r["groups"]:
            units.append((s, r, g))
    per_file = 8 if not thorough else 48
    sources = {}
    for fi, chunk in enumerate(common.chunks(units, per_file)):
        body = " ++\n  ".join(coq_case(s, g) for s, _, g in chunk)
        sources[f"c04_{fi:04d}"] = HEADER + "Definition results : list bool :=\n  " + body + ".\nEval vm_compute in show_bools results.\n"
    out = ck.eval_coq(sources) if sources else {}
    flat = "".join(out[f"c04_{fi:04d}"][0] for fi in range(len(sources)))
    assert len(flat) == 2 * len(units), (len(flat), len(units))

    disagree, failing = [], []
    for k, (s, r, g) in enumerate(units):
        agree, chk = flat[2 * k] == "T", flat[2 * k + 1] == "T"
        if not agree:
            disagree.append((s, g))
        if not chk:
            failing.append((s, g))

    size = lambda sr: (len(sr[0]["shapes"]), len(sr[0]["history"]), sr[0]["idx"])  # noqa: E731
    if raised:
        s, r = min(raised, key=size)
        ck.report(None, f"optimizer step raised on a valid presence history ({len(raised)} cases; the model proves no length mismatch can occur): {r['error']}",
                  {"kind": "step-raised", "spec": public_spec(s), "error": r["error"], "trace": r.get("trace"), "n_cases": len(raised),
                   "predicate": "C04_masked_lists_aligned (a step from a reachable state never fails)"})
    if failing:
        s, g = min(failing, key=size)
        ck.report(None, f"C04 violated ({len(failing)} of {len(units)} group histories fail C04_checkb); smallest: {len(s['shapes'])} parameters {s['shapes']}, "
                        f"{s['precond']}/graft={s['graft']}/momentum={s['momentum']}/beta1={s['beta1']}/{s['pdtype']}: {first_bad_step(s, g)}",
                  {"kind": "property-fails", "spec": public_spec(s), "group": g["pidx"], "observed": g["steps"], "nbs": g["nbs"], "comp_names": g.get("comp_names"),
                   "first_bad": first_bad_step(s, g), "n_failing": len(failing),
                   "predicate": "C04_checkb (absent blocks untouched, counter rule, masked lists = indices of the selector whenever the group steps, focus blocks = reference run)"})
    elif disagree:
        s, g = min(disagree, key=size)
        ck.report(None, f"model/implementation correspondence broken ({len(disagree)} group histories) but every observed run still passes C04_checkb; "
                        f"smallest: {s['shapes']} {s['precond']}/graft={s['graft']}/{s['pdtype']}/{s['grad_kind']}",
                  {"kind": "correspondence", "broken": "Masks.C04_agree_gen (token model vs implementation observations)", "spec": public_spec(s), "group": g["pidx"],
                   "observed": g["steps"], "nbs": g["nbs"], "comp_names": g.get("comp_names"),
                   "theorems_not_transferring": ["C04_mask_cache_inv", "C04_mask_cache_current", "C04_masked_lists_aligned", "C04_absent_block_untouched",
                                                 "C04_all_absent_no_step", "C04_present_block_uses_own_state", "C04_present_block_noninterference",
                                                 "C04_group_run_eq_blockwise"]}, no_failing_input=True)

    # ---- evidence ----
    def hist(vals):
        h = {}
        for v in vals:
            h[str(v)] = h.get(str(v), 0) + 1
        return dict(sorted(h.items()))

    def sel_changes(g):
        sels = sels_of(g)
        return sum(1 for a, b in zip(sels, sels[1:]) if a != b)

    def same_card_changes(g):
        sels = sels_of(g)
        return sum(1 for a, b in zip(sels, sels[1:]) if a != b and sum(a) == sum(b) and sum(a) > 0)

    def equal_shaped_across_params(g):
        off, owners = 0, {}
        for p, nbp in enumerate(g["nbs"]):
            for j in range(nbp):
                owners.setdefault(tuple(g["block_shapes"][off + j]), set()).add(p)
            off += nbp
        return any(len(ps) > 1 for ps in owners.values())

    nontriv = {(tuple(g["nbs"]), tuple(map(tuple, g["history"]))) for s, _, g in units
               if sel_changes(g) >= 1 and equal_shaped_across_params(g) and any(any(ob["lsel"]) for ob in g["steps"])}
    steps_total = sum(len(g["steps"]) for _, _, g in units)
    leftovers = sorted({k for _, _, g in units for k in g.get("leftover_state", [])})
    samples = []
    for s, _, g in (units[len(units) // 3], units[len(units) // 2], units[-1]) if units else ():
        samples.append({"spec": public_spec(s), "group": g["pidx"], "nbs": g["nbs"], "block_shapes": g["block_shapes"], "masked_lists": g.get("comp_names"),
                        "counters": [ob["counter"] for ob in g["steps"]], "selectors": ["".join("1" if b else "0" for b in ob["lsel"]) for ob in g["steps"]]})
    audit = {}
    executed = {id(s) for s, _, _ in units}
    for s, r in zip(specs, results):
        if id(s) in executed:
            for c in audit_classes(s, r):
                audit[c] = audit.get(c, 0) + 1
    ck.coverage.update({
        "evaluations": len(specs),
        "group_histories_compared": len(units),
        "optimizer_steps_observed": steps_total,
        "distinct_nontrivial": len(nontriv),
        "rule": "one evaluation = one (configuration, parameter shapes/groups/dtypes, gradient class, presence history, reference run) driven through the real "
                "DistributedShampoo; every parameter group of it is compared step by step inside coqc (C04_agree_gen) and judged by C04_checkb; non-trivial = distinct "
                "(block layout, history) in which the local selector changes at least once, some step has a gradient, and blocks of equal shape belong to different "
                "parameters (misalignment would raise no shape error)",
        "exhaustive": False,
        "samples": samples,
        "quantifier_audit": dict(sorted(audit.items())),
        "not_exercised": {
            "distributors other than the default Distributor (DDP/FSDP/HSDP/FullyShard/HybridShard)": "their selector caches are the same code path (DistributorInterface) with a non-trivial distributor selector; the model's l_dsel is generic and proved for every selector, the tie for those distributors is made by C06-C08 under the rank simulator",
            "PT2-compiled step (shampoo_pt2_compile_config)": "tied by C18; mask changes only trigger recompilation there",
            "parameters on CUDA / eigen_decomp_offload_device": "no GPU in the sandbox",
            "empty (numel 0) parameters": "DistributedShampoo creates 0-size Kronecker factors; LAPACK eigh on 0x0 input is outside what the property speaks about",
            "runs whose low-precision state reaches inf/nan": f"{nonfinite} run(s) of this tier dropped from the comparison (bit-identity with the reference run is undefined for NaN)",
            "value-level comparison of present blocks with the update rule": "C01's job; here a present block is only required to be a function of its own data (reference run) and, in strict mode, to move",
        },
        "distribution": {
            "pattern_kind": hist(s["kind"] for s in specs), "n_params": hist(len(s["shapes"]) for s in specs),
            "n_blocks": hist(sum(g["nbs"]) for _, _, g in units), "steps": hist(len(s["history"]) for s in specs),
            "preconditioner": hist(s["precond"] for s in specs), "grafting": hist(s["graft"] for s in specs),
            "momentum": hist(s["momentum"] for s in specs), "beta1": hist(s["beta1"] for s in specs), "weight_decay": hist(s["wd"] for s in specs),
            "max_preconditioner_dim": hist(s["maxdim"] for s in specs), "start_preconditioning_step": hist(s["start"] for s in specs),
            "dtype_pair": hist(s["pdtype"] + "/" + s["fdtype"] for s in specs), "gradient_class": hist(s["grad_kind"] for s in specs),
            "strict_comparison": hist(s["strict"] for s in specs), "targeted_class": hist(s["target"] for s in specs if s["target"]),
            "selector_changes_per_history": hist(sel_changes(g) for _, _, g in units),
            "same_cardinality_selector_changes_per_history": hist(min(same_card_changes(g), 5) for _, _, g in units),
            "all_absent_steps_per_history": hist(sum(1 for ob in g["steps"] if not any(ob["lsel"])) for _, _, g in units),
            "masked_state_lists_observed": hist(len(g["steps"][0]["comps"]) for _, _, g in units if g["steps"]),
            "histories_with_equal_shaped_blocks_across_parameters": sum(1 for _, _, g in units if equal_shaped_across_params(g)),
            "histories_with_a_multi_block_parameter": sum(1 for _, _, g in units if any(nbp > 1 for nbp in g["nbs"])),
            "non_finite_runs_dropped": nonfinite,
        },
        "disagreements": len(disagree), "checker_rejections": len(failing), "raised": len(raised),
        "non_block_state_keys": leftovers,
    })
    ck.assumptions += [
        "tensor identity is observed through data_ptr()/id(); a masked list is identified with the local indices of the tensors it holds",
        "state[params[0]]['step'] (the group counter tensor, the only per-parameter state entry that is not a block entry) is group state: it advances when parameter 0 has no gradient but another parameter has one",
        "default Distributor only (distributor selector all-true); _masked_order_list/_masked_root_list/_masked_preconditioned_dims_selector_list carry no identity: compared by value with compress(local list, selector)",
        "strict comparison ('a present block moves', both directions of changed-flags) only for binary64 runs with generic non-zero gradients and a root computation at every step; otherwise the implementation may change at most what the model changes",
        "the reference run shares with run A only the focus parameters' data and gradient histories and the moments at which each group steps; in 3 of 4 cases the other parameters also follow another presence history",
    ]
    if leftovers not in ([], ["step"]):
        ck.notes.append(f"unexpected non-block state keys: {leftovers}")
    ck.gen_equiv_verdict()


def replay(obj) -> bool:
    common.assert_repo_imports()
    spec = dict(obj["spec"])
    spec.setdefault("idx", 0)
    for k, v in DEFAULTS.items():
        spec.setdefault(k, v)
    spec.setdefault("groups", None)
    if spec["groups"] is None:
        spec["groups"] = [list(range(len(spec["shapes"])))]
    spec.setdefault("historyB", spec["history"])
    res = impl_run(spec)
    if res["error"]:
        print("implementation raised:", res["error"])
        return True
    for g in res["groups"]:
        print("group of parameters", g["pidx"], "blocks per parameter:", g["nbs"], "block shapes:", g["block_shapes"], "masked lists:", g.get("comp_names"))
        for t, (present, ob) in enumerate(zip(g["history"], g["steps"])):
            print(f"step {t + 1} present={present} counter={ob['counter']} lsel={ob['lsel']} params={ob['oparams']} comps={ob['comps']} "
                  f"value_changed={ob['vchg']} state_changed={[any(f) for f in ob['schg']]} same_as_reference={ob['same']}")
        print("first contradiction:", first_bad_step(spec, g))
    return True
