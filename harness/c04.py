"""C04 - gradient-presence masks: absent parameters untouched, masked lists aligned, no cross-wiring.

Drives the real DistributedShampoo (default Distributor) over histories of gradient-presence patterns and
records, after every step: changed-flags of every parameter / block value / state tensor, data_ptr identity,
the group step counter, every masked list as local block indices, and bit-identity of the "focus" parameters
with a reference run in which the OTHER parameters hold different values and receive different gradients.
coqc compares all of it with the Gallina model Masks.group_step instantiated with update tokens (C04_agree)
and evaluates the certified checker C04_checkb on the same observations.
"""
from __future__ import annotations

import dataclasses
import multiprocessing as mp

from harness import common, gen_targets
from harness.common import Check, coq_Z, coq_bool

META = {
    "property_id": "C04",
    "design_ref": "DESIGN.md §4 C04",
    "technique": "Coq proof (invariant of the two selector caches by induction over the history; refinement of the masked/cached "
                 "group step to a block-wise specification, generic in the per-block computation) + correspondence of the model "
                 "with the real DistributedShampoo on seeded configurations x presence histories, evaluated by vm_compute",
    "level_text": "Theorems, for every per-block computation bstep, every layout (any number of parameters/blocks, any distributor "
                  "selector, any number of masked state lists) and every history of presence patterns: mask_cache_inv/mask_cache_current "
                  "(every cached masked list = indices of the current selector = compress of the full list), masked_lists_aligned (no zip "
                  "length error, k-th masked gradient meets the value and state of its own block), absent_block_untouched (Leibniz), "
                  "all_absent_no_step (counter unchanged iff selector all-false, else +1), present_block_uses_own_state and "
                  "present_block_noninterference (whole runs), group_run_eq_blockwise (refinement to the cache-free specification), "
                  "merge_and_block_spec, generate_pairwise_indices_spec, C04_checker_sound. All proved in full (nothing _partial). "
                  "The model is tied to /repo by running the real optimizer (Shampoo/SOAP x grafting None/SGD/AdaGrad/RMSprop/Adam x momentum x "
                  "beta1 x weight decay; 2-5 parameters with equal-shaped blocks, blocked parameters) over 6-12 step histories and comparing, "
                  "inside coqc, masked lists as index lists, selectors, counters, changed-flags of every tensor and bit-identity with a reference run.",
    "level_note": "Trusted: Coq kernel+vm_compute; the hand-written model (checked against the code only on the generated configurations "
                  "and histories; default Distributor only - the model's distributor selector is generic but other distributors are tied by C06-C08); "
                  "tensor identity observed through data_ptr/id; the per-block computation itself is abstract here (C01 instantiates it). "
                  "The group counter tensor stored under state[params[0]]['step'] is treated as group state, not as state of parameter 0.",
    "ready": True,
}

BIG = 999999  # index reported for a tensor of a masked list that is not found in the local list

PATTERN_KINDS = ("all", "none", "alternating", "random", "never_one", "change_every_step", "mixed")
# generation cycle: the two constant patterns once, the others twice
KIND_CYCLE = PATTERN_KINDS + PATTERN_KINDS[2:]
SHAPES_EQUAL = ([3, 3], [4, 3], [6, 3], [3], [5], [2, 3, 2], [3, 6])


# --------------------------------------------------------------------------------------
# case generation


def gen_history(rng, kind: str, n: int, steps: int) -> list[list[bool]]:
    if kind == "all":
        return [[True] * n for _ in range(steps)]
    if kind == "none":
        return [[False] * n for _ in range(steps)]
    if kind == "alternating":
        ph = rng.randint(0, 1)
        return [[(i + t + ph) % 2 == 0 for i in range(n)] for t in range(steps)]
    if kind == "random":
        return [[rng.random() < 0.55 for _ in range(n)] for _ in range(steps)]
    if kind == "never_one":
        k = rng.randrange(n)
        return [[(i != k) and rng.random() < 0.7 for i in range(n)] for _ in range(steps)]
    if kind == "change_every_step":
        h, prev = [], None
        for _ in range(steps):
            while True:
                cur = [rng.random() < 0.5 for _ in range(n)]
                # prefer same-cardinality different patterns: the case a `sum(selector)` comparison cannot see
                if prev is not None and rng.random() < 0.5:
                    cur = prev[:]
                    rng.shuffle(cur)
                if cur != prev:
                    break
            h.append(cur)
            prev = cur
        return h
    # mixed: blocks of different kinds, with all-absent steps in between
    h = []
    while len(h) < steps:
        k = rng.choice(("all", "none", "alternating", "random", "change_every_step"))
        h += gen_history(rng, k, n, rng.randint(1, 3))
    return h[:steps]


def gen_history_b(rng, history, focus, groups, same: bool):
    """Presence history of the reference run: identical on the focus parameters; on the others it may differ, as long as
    every GROUP steps at the same moments (some member present in A iff some member present in B)."""
    if same:
        return [row[:] for row in history]
    hb = []
    for row in history:
        new = row[:]
        for g in groups:
            others = [p for p in g if not focus[p]]
            if not others:
                continue
            if any(row[p] for p in g if focus[p]):
                for p in others:
                    new[p] = rng.random() < 0.5
            elif any(row[p] for p in others):
                for p in others:
                    new[p] = rng.random() < 0.5
                if not any(new[p] for p in others):
                    new[rng.choice(others)] = True
            # else: nobody present in this group: stays all-absent
        hb.append(new)
    return hb


DEFAULTS = {"freq": 1, "dampening": 0.0, "beta3": None, "pdtype": "float64", "fdtype": "float64", "ignored_dims": [],
            "inv_root_override": 0, "grad_kind": "random", "groups": None, "group_lrs": None, "same_presence_b": False, "target": None}


def finish_spec(rng, spec: dict) -> dict:
    """Derived fields: groups default, reference-run history, comparison mode."""
    n = len(spec["shapes"])
    for k, v in DEFAULTS.items():
        spec.setdefault(k, v)
    if spec["groups"] is None:
        spec["groups"] = [list(range(n))]
    foc = spec.get("focus")
    if foc is None:
        foc = [rng.random() < 0.5 for _ in range(n)]
        if n > 1 and all(foc):
            foc[rng.randrange(n)] = False
        if not any(foc):
            foc[rng.randrange(n)] = True
        spec["focus"] = foc
    spec["historyB"] = gen_history_b(rng, spec["history"], spec["focus"], spec["groups"], spec["same_presence_b"])
    # strict comparison ("a present block moves") only where that is certain
    spec["strict"] = bool(
        spec["pdtype"] == "float64" and spec["fdtype"] == "float64" and spec["grad_kind"] in ("random", "noncontig")
        and spec["freq"] == 1 and spec["lr"] > 0 and not spec["ignored_dims"] and spec["inv_root_override"] == 0
        and not (spec["graft"] is None and spec["precond"] == "shampoo" and spec["start"] != 1)
        and not spec["group_lrs"])
    return spec


def gen_case(rng, idx: int, kind: str, **over) -> dict:
    n = over.pop("n", None) or rng.randint(2, 5)
    base = rng.choice(SHAPES_EQUAL)
    shapes = [list(base) for _ in range(rng.randint(2, min(3, n)))] if n >= 2 else [list(base)]
    while len(shapes) < n:
        shapes.append(list(rng.choice(SHAPES_EQUAL)))
    rng.shuffle(shapes)
    precond = rng.choice(("shampoo", "shampoo", "soap_eigh", "soap_qr"))
    graft = rng.choice((None, "sgd", "adagrad", "rmsprop", "adam"))
    # without grafting a Shampoo step before the first root computation is a zero step: start at 1 then
    start = 1 if (graft is None and precond == "shampoo") else rng.randint(1, 3)
    momentum = rng.choice((0.0, 0.5))
    beta1 = rng.choice((0.0, 0.9))
    spec = {
        "idx": idx, "kind": kind, "shapes": shapes,
        "precond": precond, "graft": graft, "start": start,
        "momentum": momentum, "nesterov": bool(momentum and rng.random() < 0.4),
        "dampening": rng.choice((0.0, 0.0, 0.25)) if momentum else 0.0,
        "beta1": beta1, "beta2": rng.choice((1.0, 0.99)),
        "beta3": rng.choice((None, None, 0.5)) if beta1 else None,
        "wd": rng.choice((0.0, 0.0, 0.01)), "decoupled": rng.random() < 0.5,
        "maxdim": rng.choice((2, 3, 3, 4)), "merge": rng.random() < 0.5,
        "bias": rng.random() < 0.5, "lr": rng.choice((0.01, 0.05)),
        "seed": rng.randrange(1 << 30),
        "same_presence_b": rng.random() < 0.25,
    }
    steps = rng.randint(6, 12)
    spec["history"] = gen_history(rng, kind, n, steps)
    spec.update(over)
    if "shapes" in over:
        n2 = len(spec["shapes"])
        if n2 != n or "history" not in over:
            spec["history"] = over.get("history") or gen_history(rng, kind, n2, steps)
    return finish_spec(rng, spec)


def gen_targeted(rng, start_idx: int) -> list[dict]:
    """The input classes the property's quantifier names or plainly allows and that random generation reaches rarely or never
    (quantifier audit): a few cases each, every run."""
    out = []

    def add(target, kind="random", **over):
        out.append(gen_case(rng, start_idx + len(out), kind, target=target, **over))

    T, F = True, False
    for _ in range(4):   # C04D class: blocks of different tensor order, the lower-index one absent while a later one steps
        add("mixed_order_absent_predecessor", shapes=[[3], [3, 3], [3], [2, 3, 2]], precond="shampoo", merge=False, maxdim=3,
            history=[[F, T, F, T], [T, F, T, F], [F, F, T, T], [F, T, T, F], [T, T, F, F], [F, F, F, T], [F, T, F, F], [T, T, T, T]],
            focus=[F, T, F, T], same_presence_b=False)
    for k in range(3):   # two equal-shaped parameters whose gradients alternate (same count, different pattern)
        add("two_equal_params_alternating", kind="alternating", n=2, shapes=[[3, 3], [3, 3]] if k < 2 else [[4, 3], [4, 3]], focus=[T, F] if k % 2 else [F, T])
    for _ in range(3):   # a parameter whose first gradient arrives after the others have stepped many times
        hist = [[T, F, T]] * 5 + [[T, T, T], [F, T, F], [T, T, F]]
        add("late_first_gradient", shapes=[[3, 3], [3, 3], [4, 3]], history=[r[:] for r in hist])
    for _ in range(2):   # the first steps of the run are all-absent
        add("all_absent_first_steps", shapes=[[3, 3], [3, 3]], history=[[F, F], [F, F], [T, F], [F, T], [F, F], [T, T]])
    for k in range(6):   # twin parameter groups (identical hyperparameters / different lr), one group idle while the other steps
        add("two_param_groups", n=4, groups=[[0, 1], [2, 3]], group_lrs=None if k < 4 else [0.01, 0.05],
            shapes=[[3, 3], [4, 3], [3, 3], [4, 3]],
            history=[[T, F, F, F], [F, T, F, F], [F, F, T, T], [F, F, F, F], [T, T, F, T], [F, F, T, F], [T, F, T, F], [F, T, F, T]],
            focus=[T, F, T, F] if k % 2 else [F, T, F, T])
    for _ in range(2):
        add("single_parameter_group", n=1, shapes=[[6, 3]], focus=[T], history=[[T], [F], [F], [T], [T], [F]])
    for pd, fd in (("float32", "float32"), ("float32", "float64"), ("float64", "float32"), ("bfloat16", "float32"), ("float16", "float32"),
                   ("bfloat16", "float64"), ("float32", "float32"), ("bfloat16", "float32")):
        add(f"dtype_{pd}_{fd}", kind=rng.choice(("alternating", "change_every_step", "random")), pdtype=pd, fdtype=fd)
    for gk in ("zero_param", "zero_block", "zero_param", "zero_block", "tiny", "tiny", "diag", "rank1", "deadrow", "constant"):
        add(f"grad_{gk}", kind=rng.choice(("alternating", "change_every_step", "random")), grad_kind=gk)
    for _ in range(3):
        add("grad_noncontig", kind=rng.choice(("alternating", "change_every_step")), grad_kind="noncontig", merge=False,
            shapes=[[3, 3], [4, 3], [3, 3], [3, 6]])
    for fr in (2, 3, 2):
        add(f"precondition_frequency_{fr}", kind=rng.choice(("alternating", "change_every_step", "random")), freq=fr, start=fr * rng.randint(1, 2))
    add("start_beyond_history", kind="change_every_step", graft="adam", start=100)
    add("start_beyond_history", kind="alternating", graft="sgd", start=100)
    add("lr_zero", kind="change_every_step", lr=0.0)
    for _ in range(2):
        add("ignored_dims", kind="change_every_step", ignored_dims=[0], merge=False)
    for _ in range(2):
        add("inv_root_override", kind="change_every_step", inv_root_override=2, precond="shampoo")
    for _ in range(2):   # every element its own block / no blocking at all
        add("maxdim_1_many_blocks", kind="change_every_step", maxdim=1, shapes=[[2, 3], [2, 3], [3]])
        add("maxdim_large_single_blocks", kind="change_every_step", maxdim=64)
    add("size_one_dims", kind="change_every_step", shapes=[[1, 3], [1, 3], [1], [3, 1]])
    add("size_one_dims", kind="alternating", shapes=[[1], [1], [1, 1]])
    return out


# --------------------------------------------------------------------------------------
# implementation side


def make_optimizer(spec, params):
    import torch
    from distributed_shampoo.distributed_shampoo import DistributedShampoo
    from distributed_shampoo import shampoo_types as st

    graft = {None: None, "sgd": st.SGDGraftingConfig(), "adagrad": st.AdaGradGraftingConfig(epsilon=1e-8),
             "rmsprop": st.RMSpropGraftingConfig(beta2=0.9, epsilon=1e-8), "adam": st.AdamGraftingConfig(beta2=0.9, epsilon=1e-8)}[spec["graft"]]
    pc = {"shampoo": st.DefaultShampooConfig, "soap_eigh": st.DefaultEigenvalueCorrectedShampooConfig, "soap_qr": st.DefaultSOAPConfig}[spec["precond"]]
    return DistributedShampoo(
        params, lr=spec["lr"], betas=(spec["beta1"], spec["beta2"]), epsilon=1e-8, momentum=spec["momentum"],
        weight_decay=spec["wd"], max_preconditioner_dim=spec["maxdim"], precondition_frequency=1,
        start_preconditioning_step=spec["start"], use_nesterov=spec["nesterov"], use_bias_correction=spec["bias"],
        use_decoupled_weight_decay=spec["decoupled"], grafting_config=graft, use_merge_dims=spec["merge"],
        preconditioner_dtype=torch.float64, preconditioner_config=pc)


def walk_tensors(obj, path=()):
    """Every tensor reachable from a state entry: dicts, tuples/lists, dataclass fields (Kronecker factor states)."""
    import torch
    if isinstance(obj, torch.Tensor):
        yield path, obj
    elif isinstance(obj, dict):
        for k, v in obj.items():
            yield from walk_tensors(v, path + (str(k),))
    elif isinstance(obj, (tuple, list)):
        for i, v in enumerate(obj):
            yield from walk_tensors(v, path + (str(i),))
    elif dataclasses.is_dataclass(obj) and not isinstance(obj, type):
        for f in dataclasses.fields(obj):
            yield from walk_tensors(getattr(obj, f.name), path + (f.name,))


class Probe:
    """One optimizer instance with everything needed to observe it from outside."""

    def __init__(self, spec, values):
        import torch
        from distributed_shampoo import shampoo_types as st
        self.st = st
        self.params = [torch.nn.Parameter(v.clone()) for v in values]
        self.opt = make_optimizer(spec, self.params)
        assert len(self.opt._per_group_state_lists) == 1
        self.sl = self.opt._per_group_state_lists[0]
        self.dist = self.sl[st.DISTRIBUTOR]
        self.nbs = list(self.dist._global_num_blocks_per_param)
        self.blocks = list(self.dist._global_blocked_params)          # default Distributor: local = global
        assert tuple(self.dist._distributor_selector) == (True,) * len(self.blocks)
        assert self.opt.state[self.params[0]][st.STEP] is self.sl[st.STEP]
        self.block_owner = [(p, j) for p, nb in enumerate(self.nbs) for j in range(nb)]

    def block_state(self, i):
        p, j = self.block_owner[i]
        return self.opt.state[self.params[p]][f"block_{j}"]

    def state_tensors(self, i):
        return [(path, t) for path, t in walk_tensors(self.block_state(i))]

    def leftover_state(self):
        """State entries that are not per-block (only the group counter is expected)."""
        out = []
        for p in self.params:
            for k in self.opt.state[p]:
                if not str(k).startswith("block_"):
                    out.append(str(k))
        return out

    def snapshot(self):
        snap = {"params": [(p.detach().clone(), p.data_ptr()) for p in self.params], "blocks": []}
        for i, b in enumerate(self.blocks):
            sts = [(path, t.detach().clone(), t.data_ptr(), id(t)) for path, t in self.state_tensors(i)]
            snap["blocks"].append((b.detach().clone(), b.data_ptr(), sts))
        return snap

    @staticmethod
    def _index_in(items, local, key):
        keys = [key(x) for x in local]
        out = []
        for x in items:
            k = key(x)
            out.append(keys.index(k) if k in keys else BIG)
        return out

    def masked_lists(self):
        st = self.st
        tkey = lambda t: (t.data_ptr(), tuple(t.shape))  # noqa: E731
        dparams = self._index_in(self.dist._local_masked_blocked_params, self.dist._local_blocked_params, tkey)
        oparams = self._index_in(self.sl[st.MASKED_BLOCKED_PARAMS], self.dist._local_blocked_params, tkey)
        comps, names = [], []
        spl = self.sl[st.SHAMPOO_PRECONDITIONER_LIST]
        comps.append(self._index_in(spl._masked_kronecker_factors_list, spl._local_kronecker_factors_list, id))
        names.append("kronecker_factors")
        if hasattr(spl, "_masked_failed_amortized_computation_counter_index_list"):
            comps.append([int(x) for x in spl._masked_failed_amortized_computation_counter_index_list])
            names.append("failed_counter_index")
        gpl = self.sl.get(st.GRAFTING_PRECONDITIONER_LIST)
        if gpl is not None and hasattr(gpl, "_masked_preconditioner_list"):
            comps.append(self._index_in(gpl._masked_preconditioner_list, gpl._local_preconditioner_list, tkey))
            names.append("grafting")
        if st.FILTERED_GRAD_LIST in self.sl:
            comps.append(self._index_in(self.sl[st.MASKED_FILTERED_GRAD_LIST], self.sl[st.FILTERED_GRAD_LIST], tkey))
            names.append("filtered_grad")
        if st.MOMENTUM_LIST in self.sl:
            comps.append(self._index_in(self.sl[st.MASKED_MOMENTUM_LIST], self.sl[st.MOMENTUM_LIST], tkey))
            names.append("momentum")
        # value lists that carry no identity: only their length can be observed
        lens_ok = all(len(getattr(spl, a)) == len(spl._masked_kronecker_factors_list)
                      for a in ("_masked_order_list", "_masked_root_list", "_masked_preconditioned_dims_selector_list") if hasattr(spl, a))
        return dparams, oparams, comps, names, lens_ok


def impl_run(spec) -> dict:
    """Run case `spec` (run A and its reference run B in lockstep); returns the observations."""
    import logging
    import torch
    logging.disable(logging.CRITICAL)
    torch.set_num_threads(1)
    n = len(spec["shapes"])
    gen = torch.Generator().manual_seed(spec["seed"])

    def rnd(shape):
        # small dyadic rationals, never zero
        t = torch.randint(1, 64, shape, generator=gen, dtype=torch.int64).to(torch.float64) / 16.0
        s = torch.randint(0, 2, shape, generator=gen, dtype=torch.int64).to(torch.float64) * 2 - 1
        return t * s

    valsA = [rnd(sh) for sh in spec["shapes"]]
    # the reference run's other parameters differ from run A in every element (and stay apart: steps are small)
    valsB = [valsA[p] if spec["focus"][p] else valsA[p] + 8.0 + rnd(spec["shapes"][p]).abs() for p in range(n)]
    out = {"error": None, "steps": []}
    try:
        A, B = Probe(spec, valsA), Probe(spec, valsB)
        out["nbs"] = A.nbs
        out["block_shapes"] = [list(b.shape) for b in A.blocks]
        out["leftover_state"] = A.leftover_state()
        out["comp_names"] = None
        for t, present in enumerate(spec["history"]):
            for p in range(n):
                if present[p]:
                    gA = rnd(spec["shapes"][p])
                    gB = gA if spec["focus"][p] else rnd(spec["shapes"][p])
                    A.params[p].grad, B.params[p].grad = gA.clone(), gB.clone()
                else:
                    A.params[p].grad, B.params[p].grad = None, None
            before = A.snapshot()
            A.opt.step()
            B.opt.step()
            ob = {"counter": int(A.sl[A.st.STEP].item()), "counterB": int(B.sl[B.st.STEP].item())}
            ob["pchg"] = [not torch.equal(v0, p.detach()) for (v0, _), p in zip(before["params"], A.params)]
            pptr = [p.data_ptr() == ptr0 for (_, ptr0), p in zip(before["params"], A.params)]
            vchg, schg, ptr, same = [], [], [], []
            for i, blk in enumerate(A.blocks):
                v0, bptr0, sts0 = before["blocks"][i]
                vchg.append(not torch.equal(v0, blk))
                now = A.state_tensors(i)
                ok = blk.data_ptr() == bptr0 and pptr[A.block_owner[i][0]] and len(now) == len(sts0)
                flags = []
                for (path0, t0, ptr0, id0), (path1, t1) in zip(sts0, now):
                    ok = ok and path0 == path1 and t1.data_ptr() == ptr0 and id(t1) == id0
                    flags.append(not (t0.shape == t1.shape and torch.equal(t0, t1)))
                schg.append(flags)
                ptr.append(bool(ok))
                nowB = B.state_tensors(i)
                eq = torch.equal(blk, B.blocks[i]) and len(now) == len(nowB)
                for (pa, ta), (pb, tb) in zip(now, nowB):
                    eq = eq and pa == pb and ta.shape == tb.shape and torch.equal(ta, tb)
                same.append(bool(eq))
            ob.update(vchg=vchg, schg=schg, ptr=ptr, same=same)
            dparams, oparams, comps, names, lens_ok = A.masked_lists()
            ob.update(dparams=dparams, oparams=oparams, comps=comps, lens_ok=lens_ok)
            out["comp_names"] = names
            d = A.dist
            ob["dprev"] = [bool(b) for b in (d._previous_global_grad_selector or ())]
            ob["lsel"] = [bool(b) for b in d.local_grad_selector]
            ob["oprev"] = [bool(b) for b in (A.sl[A.st.PREVIOUS_GRAD_SELECTOR] or ())]
            ob["finite"] = all(bool(torch.isfinite(p).all()) for p in A.params)
            out["steps"].append(ob)
    except Exception as ex:  # a raising step on a valid history is itself a disagreement with the model
        import traceback
        out["error"] = f"{type(ex).__name__}: {ex}"[:300]
        out["trace"] = traceback.format_exc()[-1500:]
    return out


# --------------------------------------------------------------------------------------
# Coq side


def bl(xs) -> str:
    return "[" + ";".join("T" if x else "F" for x in xs) + "]"


def nl(xs) -> str:
    return "[" + ";".join(str(int(x)) for x in xs) + "]"


HEADER = """From Coq Require Import ZArith List Bool String.
From Shampoo Require Import Show Masks MasksProofs MasksChecker.
Import ListNotations.
Definition T := true. Definition F := false.
Definition o (c : Z) (dprev lsel oprev : list bool) (dp op : list nat) (comps : list (list nat))
             (pchg vchg : list bool) (schg : list (list bool)) (ptr same : list bool) : obs_step :=
  {| ob_counter := c; ob_dprev := dprev; ob_lsel := lsel; ob_oprev := oprev; ob_dparams := dp; ob_oparams := op;
     ob_comps := comps; ob_pchg := pchg; ob_vchg := vchg; ob_schg := schg; ob_ptr := ptr; ob_same := same |}.
Definition both (lay : layout) (focus : list bool) (h : list (list bool)) (obs : list obs_step) : list bool :=
  [C04_agree lay focus h obs; C04_checkb lay focus h obs].
"""


def coq_case(spec, res) -> str | None:
    """Coq term (list of two booleans: model agrees, checker accepts) for one case; None if the run raised."""
    if res["error"] is not None or len(res["steps"]) != len(spec["history"]):
        return None
    ncomp = len(res["steps"][0]["comps"]) if res["steps"] else 1
    nb = sum(res["nbs"])
    lay = f"{{| l_nbs := {nl(res['nbs'])}; l_dsel := {bl([True] * nb)}; l_nextra := {ncomp - 1} |}}"
    obs = []
    for ob in res["steps"]:
        extra_ok = ob["lens_ok"] and ob["counter"] == ob["counterB"]
        ptr = [x and extra_ok for x in ob["ptr"]]   # anything else the model predicts "as expected" is folded into ptr
        obs.append(f"o {coq_Z(ob['counter'])} {bl(ob['dprev'])} {bl(ob['lsel'])} {bl(ob['oprev'])} {nl(ob['dparams'])} {nl(ob['oparams'])} "
                   f"[{';'.join(nl(c) for c in ob['comps'])}] {bl(ob['pchg'])} {bl(ob['vchg'])} "
                   f"[{';'.join(bl(f) for f in ob['schg'])}] {bl(ptr)} {bl(ob['same'])}")
    h = "[" + ";".join(bl(p) for p in spec["history"]) + "]"
    return f"both ({lay}) {bl(spec['focus'])} {h} [" + ";\n   ".join(obs) + "]"


def public_spec(spec) -> dict:
    return {k: spec[k] for k in ("kind", "shapes", "precond", "graft", "start", "momentum", "nesterov", "beta1", "beta2", "wd",
                                 "decoupled", "maxdim", "merge", "bias", "lr", "seed", "history", "focus")}


def first_bad_step(spec, res) -> str:
    """Human-readable description of the first observation that contradicts the property (harness-side, for the report only)."""
    off = [0]
    for nbp in res.get("nbs", []):
        off.append(off[-1] + nbp)
    prev = 0
    for t, (present, ob) in enumerate(zip(spec["history"], res["steps"])):
        sel = [present[p] for p, nbp in enumerate(res["nbs"]) for _ in range(nbp)]
        idx = [i for i, b in enumerate(sel) if b]
        for i, b in enumerate(sel):
            if not b and (ob["vchg"][i] or any(ob["schg"][i]) or not ob["ptr"][i]):
                what = "value" if ob["vchg"][i] else ("state tensor" if any(ob["schg"][i]) else "tensor identity")
                return f"step {t + 1}: block {i} has no gradient but its {what} changed"
        exp = prev + 1 if any(sel) else prev
        if ob["counter"] != exp:
            return f"step {t + 1}: counter {ob['counter']}, expected {exp}"
        prev = ob["counter"]
        if any(sel):   # the masked lists are only used when the per-group step runs
            for nm, lst in [("distributor masked params", ob["dparams"]), ("MASKED_BLOCKED_PARAMS", ob["oparams"])] + \
                           list(zip(res.get("comp_names") or [], ob["comps"])):
                if lst != idx:
                    return f"step {t + 1}: masked list `{nm}` refers to local blocks {lst}, the selector selects {idx}"
            if ob["lsel"] != sel or ob["oprev"] != sel:
                return f"step {t + 1}: cached selector {ob['lsel']}/{ob['oprev']} is not the step's selector {sel}"
        foc = [spec["focus"][p] for p, nbp in enumerate(res["nbs"]) for _ in range(nbp)]
        for i, f in enumerate(foc):
            if f and not ob["same"][i]:
                return f"step {t + 1}: block {i} differs from the reference run although its own data and gradients are identical (cross-wired)"
    return "no harness-side explanation (see checker)"


def run(ck: Check) -> None:
    common.assert_repo_imports()
    ck.coq_props()
    gen_targets.run(ck)          # translator tie: Gallina regenerated from the source + coq/gen/EquivC04.v
    thorough = ck.tier == "thorough"
    ncases = 3000 if thorough else 208
    specs = []
    for i in range(ncases):
        kind = KIND_CYCLE[i % len(KIND_CYCLE)]
        specs.append(gen_case(ck.rng, i, kind))
    with mp.get_context("fork").Pool(16) as pool:
        results = pool.map(impl_run, specs, chunksize=2)

    terms = [coq_case(s, r) for s, r in zip(specs, results)]
    live = [(s, r, t) for s, r, t in zip(specs, results, terms) if t is not None]
    per_file = 8 if not thorough else 48
    sources = {}
    for fi, chunk in enumerate(common.chunks(live, per_file)):
        body = " ++\n  ".join(t for _, _, t in chunk)
        sources[f"c04_{fi:04d}"] = HEADER + "Definition results : list bool :=\n  " + body + ".\nEval vm_compute in show_bools results.\n"
    out = ck.eval_coq(sources) if sources else {}
    flat = "".join(out[f"c04_{fi:04d}"][0] for fi in range(len(sources)))
    assert len(flat) == 2 * len(live), (len(flat), len(live))

    disagree, failing = [], []
    for k, (s, r, _) in enumerate(live):
        agree, chk = flat[2 * k] == "T", flat[2 * k + 1] == "T"
        if not agree:
            disagree.append((s, r))
        if not chk:
            failing.append((s, r))
    raised = [(s, r) for s, r, t in zip(specs, results, terms) if t is None]

    size = lambda sr: (len(sr[0]["shapes"]), len(sr[0]["history"]), sr[0]["idx"])  # noqa: E731
    if raised:
        s, r = min(raised, key=size)
        ck.report(None, f"optimizer step raised on a valid presence history ({len(raised)} cases; the model proves no length mismatch can occur): {r['error']}",
                  {"kind": "step-raised", "spec": public_spec(s), "error": r["error"], "trace": r.get("trace"), "n_cases": len(raised),
                   "predicate": "C04_masked_lists_aligned (a step from a reachable state never fails)"})
    if failing:
        s, r = min(failing, key=size)
        ck.report(None, f"C04 violated ({len(failing)} of {len(live)} histories fail C04_checkb); smallest: {len(s['shapes'])} parameters {s['shapes']}, "
                        f"{s['precond']}/graft={s['graft']}/momentum={s['momentum']}/beta1={s['beta1']}: {first_bad_step(s, r)}",
                  {"kind": "property-fails", "spec": public_spec(s), "observed": r["steps"], "nbs": r["nbs"], "comp_names": r.get("comp_names"),
                   "first_bad": first_bad_step(s, r), "n_failing": len(failing),
                   "predicate": "C04_checkb (absent blocks untouched, counter rule, masked lists = indices of the selector whenever the group steps, focus blocks = reference run)"})
    elif disagree:
        s, r = min(disagree, key=size)
        ck.report(None, f"model/implementation correspondence broken ({len(disagree)} histories) but every observed run still passes C04_checkb; "
                        f"smallest: {s['shapes']} {s['precond']}/graft={s['graft']}",
                  {"kind": "correspondence", "broken": "Masks.C04_agree (token model vs implementation observations)", "spec": public_spec(s),
                   "observed": r["steps"], "nbs": r["nbs"], "comp_names": r.get("comp_names"),
                   "theorems_not_transferring": ["C04_mask_cache_inv", "C04_mask_cache_current", "C04_masked_lists_aligned", "C04_absent_block_untouched",
                                                 "C04_all_absent_no_step", "C04_present_block_uses_own_state", "C04_present_block_noninterference",
                                                 "C04_group_run_eq_blockwise"]}, no_failing_input=True)

    # ---- evidence ----
    def hist(vals):
        h = {}
        for v in vals:
            h[str(v)] = h.get(str(v), 0) + 1
        return dict(sorted(h.items()))

    def sel_changes(s, r):
        sels = [tuple(ob["lsel"]) for ob in r["steps"]]
        return sum(1 for a, b in zip(sels, sels[1:]) if a != b)

    def same_card_changes(s, r):
        sels = [tuple(ob["lsel"]) for ob in r["steps"]]
        return sum(1 for a, b in zip(sels, sels[1:]) if a != b and sum(a) == sum(b) and sum(a) > 0)

    def equal_shaped_across_params(r):
        off, owners = 0, {}
        for p, nbp in enumerate(r["nbs"]):
            for j in range(nbp):
                owners.setdefault(tuple(r["block_shapes"][off + j]), set()).add(p)
            off += nbp
        return any(len(ps) > 1 for ps in owners.values())

    nontriv = {(tuple(r["nbs"]), tuple(map(tuple, s["history"]))) for s, r, _ in live
               if sel_changes(s, r) >= 1 and equal_shaped_across_params(r) and any(any(ob["lsel"]) for ob in r["steps"])}
    steps_total = sum(len(r["steps"]) for _, r, _ in live)
    leftovers = sorted({k for _, r, _ in live for k in r.get("leftover_state", [])})
    samples = []
    for s, r, _ in (live[len(live) // 3], live[len(live) // 2], live[-1]) if live else ():
        samples.append({"spec": public_spec(s), "nbs": r["nbs"], "block_shapes": r["block_shapes"], "masked_lists": r.get("comp_names"),
                        "counters": [ob["counter"] for ob in r["steps"]], "selectors": ["".join("1" if b else "0" for b in ob["lsel"]) for ob in r["steps"]]})
    ck.coverage.update({
        "evaluations": len(specs),
        "optimizer_steps_observed": steps_total,
        "distinct_nontrivial": len(nontriv),
        "rule": "one evaluation = one (configuration, parameter shapes, presence history, reference run) driven through the real DistributedShampoo and "
                "compared step by step inside coqc (C04_agree) and judged by C04_checkb; non-trivial = distinct (block layout, history) in which the local "
                "selector changes at least once, some step has a gradient, and blocks of equal shape belong to different parameters (misalignment would raise no shape error)",
        "exhaustive": False,
        "samples": samples,
        "distribution": {
            "pattern_kind": hist(s["kind"] for s in specs), "n_params": hist(len(s["shapes"]) for s in specs),
            "n_blocks": hist(sum(r["nbs"]) for _, r, _ in live), "steps": hist(len(s["history"]) for s in specs),
            "preconditioner": hist(s["precond"] for s in specs), "grafting": hist(s["graft"] for s in specs),
            "momentum": hist(s["momentum"] for s in specs), "beta1": hist(s["beta1"] for s in specs), "weight_decay": hist(s["wd"] for s in specs),
            "max_preconditioner_dim": hist(s["maxdim"] for s in specs), "start_preconditioning_step": hist(s["start"] for s in specs),
            "selector_changes_per_history": hist(sel_changes(s, r) for s, r, _ in live),
            "same_cardinality_selector_changes_per_history": hist(min(same_card_changes(s, r), 5) for s, r, _ in live),
            "all_absent_steps_per_history": hist(sum(1 for ob in r["steps"] if not any(ob["lsel"])) for _, r, _ in live),
            "masked_state_lists_observed": hist(len(r["steps"][0]["comps"]) for _, r, _ in live if r["steps"]),
            "histories_with_equal_shaped_blocks_across_parameters": sum(1 for _, r, _ in live if equal_shaped_across_params(r)),
            "histories_with_a_multi_block_parameter": sum(1 for _, r, _ in live if any(nbp > 1 for nbp in r["nbs"])),
            "non_finite_runs": sum(1 for _, r, _ in live if not all(ob["finite"] for ob in r["steps"])),
        },
        "disagreements": len(disagree), "checker_rejections": len(failing), "raised": len(raised),
        "non_block_state_keys": leftovers,
    })
    ck.assumptions += [
        "tensor identity is observed through data_ptr()/id(); a masked list is identified with the local indices of the tensors it holds",
        "state[params[0]]['step'] (the group counter tensor, the only per-parameter state entry that is not a block entry) is group state: it advances when parameter 0 has no gradient but another parameter has one",
        "default Distributor only (distributor selector all-true); _masked_order_list/_masked_root_list/_masked_preconditioned_dims_selector_list carry no identity and are observed by length only",
        "precondition_frequency=1 in all configurations so that a present block always moves (the tie compares 'value changed' exactly)",
    ]
    if leftovers not in ([], ["step"]):
        ck.notes.append(f"unexpected non-block state keys: {leftovers}")
    ck.gen_equiv_verdict()


def replay(obj) -> bool:
    common.assert_repo_imports()
    spec = dict(obj["spec"])
    spec.setdefault("idx", 0)
    res = impl_run(spec)
    if res["error"]:
        print("implementation raised:", res["error"])
        return True
    print("blocks per parameter:", res["nbs"], "block shapes:", res["block_shapes"], "masked lists:", res.get("comp_names"))
    for t, (present, ob) in enumerate(zip(spec["history"], res["steps"])):
        print(f"step {t + 1} present={present} counter={ob['counter']} lsel={ob['lsel']} params={ob['oparams']} comps={ob['comps']} "
              f"value_changed={ob['vchg']} state_changed={[any(f) for f in ob['schg']]} same_as_reference={ob['same']}")
    print("first contradiction:", first_bad_step(spec, res))
    return True
