"""C13 - failed root computations tolerated N times then raised; stored roots finite.

Drives the real DistributedShampoo (Shampoo and SOAP lists) through gradient-presence histories with fault
scripts injected into the matrix routine, and lets coqc compare every step with the Coq model Failures.step
(exception + the block/factor it names, failure counters, identity and finiteness of every stored matrix,
number of routine calls, parameter-block changes).  On a disagreement the certified checker
C13_behaviour_checkb / C13_checkb decides on the observed run whether the property itself fails.
"""
from __future__ import annotations

import json
import multiprocessing as mp
import random
import re

from harness import common, gen_targets
from harness.common import Check, coq_bool

META = {
    "property_id": "C13",
    "design_ref": "DESIGN.md §4 C13",
    "technique": "Coq proof by induction over step histories on a discrete model of the failure-tolerance protocol (masked index list, per-block counters, per-factor stored-matrix tokens) + correspondence with the real optimizer under injected fault scripts, evaluated by vm_compute inside coqc; certified checker on the observed run",
    "level_text": "Theorems for every history of step inputs (presence selector per block, routine outcome and factor-matrix finiteness per factor), every tolerance N, frequency, start step and block layout, on the Gallina model of DistributedShampoo.step / _amortized_computation / _raise_exception_if_failure_tolerance_exceeded / compress_preconditioner_list: the failure counter equals the number of consecutive failed refreshes the block took part in, computed from the inputs and the exceptions alone (refinement); the tolerance error for block b is raised iff that number exceeds N; a clean refresh resets it; a failed computation keeps the stored matrix; stored matrices are finite in every reachable state, where a routine result that is finite in the factor dtype but overflows the dtype it is stored in (SuccessOverflowsStorage, e.g. a float32 root 1e6 for a float16 parameter) counts as non-finite and makes the step raise; a raising step writes no parameter; NaN/Inf in a factor matrix or computed matrix of a present block at a refresh makes the step raise and the PreconditionerValueError names the first such factor; the model's own observations satisfy the checker's specification. Both list classes follow the same protocol and share the model. The model is tied to the code by running the real optimizer (Shampoo, SOAP eigh, SOAP QR; 2-4 parameters, some blocked, some with ignored dims; parameter/factor dtypes float32/float32, float64/float64, float16/float32, bfloat16/float32, float32/float64) on seeded presence histories x fault scripts x NaN/Inf gradients and comparing every step inside coqc.",
    "level_note": "Trusted: Coq kernel+vm_compute; the hand-written model (checked against the code on the generated histories only); the harness (mock.patch of matrix_inverse_root / matrix_eigenvectors in shampoo_preconditioner_list, parsing of the block/factor named in exception messages, identification of a stored matrix with the routine result it equals bitwise). Matrices are abstracted to tokens: numerical content of roots/eigenvectors is C10-C12's subject. Single process, default Distributor (local blocks = all blocks). The model states the cast-then-check protocol for both list classes; the SOAP list of the code checks before the narrowing copy_, which the check reports as finding C13:soap-eigvec-storage-overflow (reachable only when the eigenvector routine returns a finite matrix that overflows the storage dtype, i.e. under fault injection).",
    "ready": True,
}

KINDS = ("shampoo", "soap_eigh", "soap_qr")
SHAPE_POOL = ((3, 4), (3, 4), (4, 3), (2, 2), (5,), (3,), (2, 3, 2), (4, 6), (1, 3))
CODE2COQ = {"ok": "Success", "raise": "Fail", "nan": "SuccessNonFinite", "inf": "SuccessNonFinite", "ovf": "SuccessOverflowsStorage"}
# parameter (= storage) dtype / preconditioner (factor matrix) dtype; the last three narrow at the store
PDTYPES = {"f32": ("float32", "float32"), "f64": ("float64", "float64"), "f16": ("float16", "float32"),
           "bf16": ("bfloat16", "float32"), "f32_pre64": ("float32", "float64")}
NARROWING = ("f16", "bf16", "f32_pre64")
SOAP_OVERFLOW_SIG = "C13:soap-eigvec-storage-overflow"


def pdtype_of(config) -> str:
    return config.get("pdtype") or ("f64" if config.get("f64") else "f32")


def overflow_value(storage_dtype) -> float:
    """A value finite in the factor dtype that is not finite in the storage dtype."""
    import torch
    return {torch.float16: 1e6, torch.bfloat16: 3.4e38, torch.float32: 1e39}[storage_dtype]


# ----------------------------------------------------------------------------------------------
# the implementation side


def build(config):
    """Instantiate parameters + optimizer for a config; returns (params, opt, plist, dist, stored, nfs, block2param)."""
    import logging
    import torch
    logging.disable(logging.CRITICAL)
    from distributed_shampoo.distributed_shampoo import DistributedShampoo
    from distributed_shampoo.shampoo_types import (
        AdaGradGraftingConfig, EigenvalueCorrectedShampooPreconditionerConfig, ShampooPreconditionerConfig,
        DISTRIBUTOR, SHAMPOO_PRECONDITIONER_LIST,
    )
    from matrix_functions_types import EighEigenvectorConfig, QRConfig

    dtype, pre_dtype = (getattr(torch, x) for x in PDTYPES[pdtype_of(config)])
    g = torch.Generator().manual_seed(config["pseed"])
    params = [torch.nn.Parameter(torch.randn(tuple(sh), generator=g, dtype=torch.float32).to(dtype)) for sh in config["shapes"]]
    kind = config["kind"]
    kw = dict(num_tolerated_failed_amortized_computations=config["N"], ignored_dims=list(config["ignored_dims"]))
    if kind == "shampoo":
        pc = ShampooPreconditionerConfig(**kw)
    elif kind == "soap_eigh":
        pc = EigenvalueCorrectedShampooPreconditionerConfig(amortized_computation_config=EighEigenvectorConfig(), **kw)
    else:
        pc = EigenvalueCorrectedShampooPreconditionerConfig(amortized_computation_config=QRConfig(), **kw)
    opt = DistributedShampoo(
        params, lr=0.01, betas=(config["beta1"], config["beta2"]), epsilon=1e-8 if kind != "shampoo" else 1e-10,
        max_preconditioner_dim=config["mpd"], precondition_frequency=config["freq"],
        start_preconditioning_step=config["start"], use_merge_dims=config["merge"],
        grafting_config=AdaGradGraftingConfig(epsilon=1e-8) if config["graft"] else None,
        preconditioner_dtype=pre_dtype, preconditioner_config=pc,
    )
    sl = opt._per_group_state_lists[0]
    plist, dist = sl[SHAMPOO_PRECONDITIONER_LIST], sl[DISTRIBUTOR]
    kfs = plist._local_kronecker_factors_list
    if kind == "shampoo":
        stored = [list(kf.inv_factor_matrices) for kf in kfs]
    else:
        stored = [list(kf.factor_matrices_eigenvectors) for kf in kfs]
    nfs = [len(kf.factor_matrices) for kf in kfs]
    block2param = [pi for pi, nbk in enumerate(dist._global_num_blocks_per_param) for _ in range(nbk)]
    return params, opt, plist, dist, stored, nfs, block2param


def run_impl(config, history):
    """Run the real optimizer over `history`; returns the list of per-step observations."""
    import torch
    from unittest import mock
    import distributed_shampoo.utils.shampoo_preconditioner_list as plmod
    from distributed_shampoo.shampoo_types import PreconditionerValueError

    params, opt, plist, dist, stored, nfs, block2param = build(config)
    kfs = plist._local_kronecker_factors_list
    kind = config["kind"]
    nbk = len(nfs)
    idx2bk = {}
    for b, kf in enumerate(kfs):
        for k, s in enumerate(kf.factor_matrix_indices):
            idx2bk[s] = (b, k)
    real = {"matrix_inverse_root": plmod.matrix_inverse_root, "matrix_eigenvectors": plmod.matrix_eigenvectors}
    results = {(b, k): [] for b in range(nbk) for k in range(nfs[b])}   # finite successful results: (tick, tensor)
    st = {}

    def inspected(b, k):
        m = kfs[b].factor_matrices[k]
        return m / plist._bias_correction2 if kind == "shampoo" else m

    def make_wrapper(name):
        def wrapper(*a, **kw):
            idx = st["calls"]
            st["calls"] += 1
            plan = st["plan"]
            A = kw["A"] if "A" in kw else a[0]
            if idx < len(plan):
                b, k, code = plan[idx]
                if kind == "shampoo":
                    st["order_ok"] &= bool(torch.equal(A, inspected(b, k)))
                else:
                    st["order_ok"] &= A is kfs[b].factor_matrices[k]
            else:
                b, k, code = None, None, "ok"
                st["order_ok"] = False
            if code == "raise":
                st["rec"][(b, k)] = "raise"
                raise RuntimeError("injected failure of the matrix routine")
            sdt = stored[b][k].dtype if b is not None else A.dtype      # dtype the result will be stored in
            if code in ("nan", "inf", "ovf"):
                r = torch.eye(A.shape[0], dtype=A.dtype)
                r[0, 0] = float(code) if code != "ovf" else overflow_value(sdt)   # KeyError for a non-narrowing store: never generated
            else:
                try:
                    r = real[name](*a, **kw)
                except Exception:
                    st["rec"][(b, k)] = "raise"
                    raise
            # classify what the routine returned: finite / finite only before the narrowing store / not finite
            if not bool(torch.isfinite(r).all()):
                st["rec"][(b, k)] = "nan"
            elif not bool(torch.isfinite(r.to(dtype=sdt)).all()):
                st["rec"][(b, k)] = "ovf"
            else:
                st["rec"][(b, k)] = "ok"
                if b is not None:
                    results[(b, k)].append((st["tick"], r.detach().clone()))
            return r
        return wrapper

    def bits(t):
        c = t.detach().clone().contiguous()
        return c.view({8: torch.int64, 4: torch.int32, 2: torch.int16}[c.element_size()])

    observations = []
    with mock.patch.object(plmod, "matrix_inverse_root", make_wrapper("matrix_inverse_root")), \
            mock.patch.object(plmod, "matrix_eigenvectors", make_wrapper("matrix_eigenvectors")):
        for tick, stp in enumerate(history, start=1):
            g = torch.Generator().manual_seed(stp["gseed"])
            for pi, p in enumerate(params):
                if stp["present"][pi]:
                    gr = torch.randn(p.shape, generator=g, dtype=torch.float32).to(p.dtype)
                    if stp["poison"][pi]:
                        gr.view(-1)[0] = float(stp["poison"][pi])
                    p.grad = gr
                else:
                    torch.randn(p.shape, generator=g, dtype=torch.float32)
                    p.grad = None
            present_b = [bool(stp["present"][block2param[b]]) for b in range(nbk)]
            st.update(calls=0, tick=tick, rec={}, order_ok=True,
                      plan=[(b, k, stp["script"][b][k]) for b in range(nbk) if present_b[b] for k in range(nfs[b])])
            before = [bits(x) for x in dist._global_blocked_params]
            exc = None
            try:
                opt.step()
            except Exception as e:  # noqa
                exc = e
            # classify the exception
            if exc is None:
                out = ["ok"]
            elif type(exc) is PreconditionerValueError:
                m = re.search(r"factor matrix ([^\s!]+)!", str(exc))
                out = ["pve", *idx2bk[m.group(1)]] if m and m.group(1) in idx2bk else ["other", "PreconditionerValueError(unparsed)"]
            elif type(exc) is ValueError and "exceeded the allowed tolerance" in str(exc):
                m = re.search(r"for factors \('([^']+)'", str(exc))
                out = ["tol", idx2bk[m.group(1)][0]] if m and m.group(1) in idx2bk else ["other", "ValueError(unparsed)"]
            else:
                out = ["other", type(exc).__name__ + ": " + str(exc)[:120]]
            after = [bits(x) for x in dist._global_blocked_params]
            toks, fins, fmf = [], [], []
            for b in range(nbk):
                tb, fb, mb = [], [], []
                for k in range(nfs[b]):
                    s = stored[b][k]
                    tok = -1
                    for (tk, r) in reversed(results[(b, k)]):
                        if torch.equal(s, r.to(dtype=s.dtype)):
                            tok = tk
                            break
                    else:
                        if not bool(s.any()):
                            tok = 0
                    tb.append(tok)
                    fb.append(bool(torch.isfinite(s).all()))
                    mb.append(bool(torch.isfinite(inspected(b, k)).all()))
                toks.append(tb)
                fins.append(fb)
                fmf.append(mb)
            cnts = getattr(plist, "_local_failed_amortized_computation_counter_list", None)
            observations.append({
                "out": out,
                "cnts": [int(x) for x in cnts] if cnts is not None else [-1] * nbk,
                "toks": toks, "fins": fins,
                "pchg": [not bool(torch.equal(x, y)) for x, y in zip(before, after)],
                "calls": st["calls"], "order_ok": st["order_ok"],
                "present_b": present_b, "fmf": fmf,
                # what the routine did where it was called, the script elsewhere
                "rout": [[st["rec"].get((b, k), stp["script"][b][k]) for k in range(nfs[b])] for b in range(nbk)],
            })
    return {"nfs": nfs, "b2p": block2param, "obs": observations}


# ----------------------------------------------------------------------------------------------
# generation


def gen_config(rng: random.Random) -> dict:
    kind = rng.choice(KINDS)
    freq = rng.choice((1, 1, 2, 3))
    start = freq + rng.choice((0, 0, 0, 1, 2, freq))
    nparams = rng.randint(2, 4)
    shapes = [list(rng.choice(SHAPE_POOL)) for _ in range(nparams)]
    if rng.random() < 0.5:                     # make sure some blocks have equal shapes
        shapes[1] = list(shapes[0])
    mpd = rng.choice((1024, 1024, 4, 3))
    return {
        "kind": kind, "N": rng.choice((0, 0, 1, 1, 2, 2, 3, 4)), "freq": freq, "start": start, "shapes": shapes,
        "mpd": mpd, "merge": rng.random() < 0.2, "ignored_dims": rng.choice(([], [], [], [0], [1])),
        "beta1": rng.choice((0.0, 0.9)), "beta2": rng.choice((1.0, 0.999, 0.9)), "graft": rng.random() < 0.6,
        "pdtype": rng.choice(("f32", "f32", "f64", "f64", "f16", "f16", "bf16", "f32_pre64")), "pseed": rng.randrange(1 << 30),
    }


def gen_history(rng: random.Random, config: dict, nfs: list, block2param: list, thorough: bool) -> tuple[list, dict]:
    nparams, nbk = len(config["shapes"]), len(nfs)
    nrefresh_wanted = config["N"] + rng.randint(2, 5)
    T = min(40 if thorough else 26, config["start"] + config["freq"] * nrefresh_wanted + rng.randint(0, 3))
    pres_kind = rng.choice(("all", "toggle", "toggle", "random", "random", "windows"))
    fault_kind = rng.choice(("none", "always", "always", "random", "random", "random", "burst"))
    nonfinite = rng.random() < 0.25        # routine returns NaN/Inf somewhere
    narrowing = pdtype_of(config) in NARROWING
    overflow = narrowing and rng.random() < 0.5   # routine returns a finite matrix that overflows the storage dtype
    poison = rng.random() < 0.15           # a NaN/Inf gradient somewhere
    p_pres = rng.choice((0.4, 0.7, 0.9))
    p_fault = rng.choice((0.2, 0.5, 0.8, 1.0))
    period = rng.randint(2, 4)
    always = {(b, k) for b in range(nbk) for k in range(nfs[b]) if rng.random() < 0.5}
    if fault_kind == "always" and not always and any(nfs):
        b = rng.choice([b for b in range(nbk) if nfs[b]])
        always.add((b, rng.randrange(nfs[b])))
    burst = (rng.randint(1, T), rng.randint(2, 3 + 2 * config["N"] * config["freq"]))
    windows = [(rng.randint(1, T), rng.randint(1, T)) for _ in range(nparams)]
    hist = []
    for t in range(1, T + 1):
        if pres_kind == "all":
            pres = [True] * nparams
        elif pres_kind == "toggle":
            pres = [pi == 0 or (t + pi) % period != 0 for pi in range(nparams)]
        elif pres_kind == "random":
            pres = [rng.random() < p_pres for _ in range(nparams)]
        else:
            pres = [min(w) <= t <= max(w) or pi == 0 for pi, w in enumerate(windows)]
        if rng.random() < 0.04:
            pres = [False] * nparams
        script = []
        for b in range(nbk):
            row = []
            for k in range(nfs[b]):
                code = "ok"
                if fault_kind == "always" and (b, k) in always:
                    code = "raise"
                elif fault_kind == "random" and rng.random() < p_fault and ((b, k) in always or rng.random() < 0.5):
                    code = "raise"
                elif fault_kind == "burst" and burst[0] <= t < burst[0] + burst[1] and (b, k) in always:
                    code = "raise"
                if nonfinite and rng.random() < 0.04:
                    code = rng.choice(("nan", "inf"))
                if overflow and rng.random() < 0.06:
                    code = "ovf"
                row.append(code)
            script.append(row)
        pz = [rng.choice(("nan", "inf")) if (poison and pres[pi] and rng.random() < 0.06) else None for pi in range(nparams)]
        hist.append({"present": pres, "script": script, "gseed": rng.randrange(1 << 30), "poison": pz})
    return hist, {"presence": pres_kind, "faults": fault_kind, "nonfinite_results": nonfinite, "poison": poison, "storage_overflow": overflow}


def make_case(seed_tier):
    seed, thorough = seed_tier
    rng = random.Random(seed)
    config = gen_config(rng)
    _, _, _, _, _, nfs, block2param = build(config)
    history, kinds = gen_history(rng, config, nfs, block2param, thorough)
    res = run_impl(config, history)
    return {"seed": seed, "config": config, "history": history, "kinds": kinds, **res}


def make_explicit(args):
    config, history, kinds = args
    res = run_impl(config, history)
    return {"seed": None, "config": config, "history": history, "kinds": kinds, **res}


ENUM_BASE = {"shapes": [[3], [3]], "mpd": 1024, "merge": False, "ignored_dims": [], "beta1": 0.0, "beta2": 1.0, "graft": False,
             "pdtype": "f32", "pseed": 7}


def enum_cases(kind: str, N: int, freq: int, start: int, length: int):
    """Every history of `length` steps over two single-factor blocks, each block per step absent / present+ok / present+fail."""
    import itertools
    config = dict(ENUM_BASE, kind=kind, N=N, freq=freq, start=start)
    per_step = list(itertools.product((0, 1, 2), repeat=2))
    for hi, combo in enumerate(itertools.product(per_step, repeat=length)):
        hist = [{"present": [x != 0 for x in stp], "script": [["raise" if x == 2 else "ok"] for x in stp],
                 "gseed": 1000 + 17 * t, "poison": [None, None]} for t, stp in enumerate(combo)]
        yield (config, hist, {"presence": "enumerated", "faults": "enumerated", "nonfinite_results": False, "poison": False})


def corpus_cases():
    d = common.ROOT / "corpus" / "C13"
    out = []
    for f in sorted(d.glob("*.json")) if d.exists() else []:
        o = json.loads(f.read_text())
        out.append((o["config"], o["history"], {"presence": "corpus", "faults": "corpus", "nonfinite_results": False, "poison": False}))
    return out


def rerun(args):
    config, history = args
    try:
        _, _, _, _, _, nfs, _ = build(config)
        if any(len(st["script"]) != len(nfs) or any(len(row) != n for row, n in zip(st["script"], nfs)) for st in history):
            return None          # the candidate changed the block layout: the script no longer fits
        return run_impl(config, history)
    except Exception:  # noqa
        return None


# ----------------------------------------------------------------------------------------------
# Coq literals

HEADER = """From Coq Require Import String.
From Coq Require Import List ZArith Bool.
From Shampoo Require Import Show Failures FailuresProofs FailuresChecker.
Import ListNotations.
"""


def coq_cfg(config, nfs) -> str:
    return f"{{| tol := {config['N']}; freq := {config['freq']}; start := {config['start']}; nfs := [{'; '.join(map(str, nfs))}] |}}"


def coq_hist(obs, nfs) -> str:
    steps = []
    for o in obs:
        blocks = []
        for b in range(len(nfs)):
            fis = "; ".join(f"fi {coq_bool(o['fmf'][b][k])} {CODE2COQ[o['rout'][b][k]]}" for k in range(nfs[b]))
            blocks.append(f"bi {coq_bool(o['present_b'][b])} [{fis}]")
        steps.append("si [" + "; ".join(blocks) + "]")
    return "[" + ";\n  ".join(steps) + "]"


def coq_out(out) -> str:
    if out[0] == "ok":
        return "Some Ok"
    if out[0] == "tol":
        return f"Some (RaiseTol {out[1]})"
    if out[0] == "pve":
        return f"Some (RaisePVE {out[1]} {out[2]})"
    return "None"


def coq_obs(obs) -> str:
    items = []
    for o in obs:
        cn = "[" + "; ".join(str(max(0, x)) if x >= 0 else "999999" for x in o["cnts"]) + "]"
        tk = "[" + "; ".join("[" + "; ".join(f"({x})" for x in row) + "]" for row in o["toks"]) + "]%Z"
        fn = "[" + "; ".join("[" + "; ".join(coq_bool(x) for x in row) + "]" for row in o["fins"]) + "]"
        pc = "[" + "; ".join(coq_bool(x) for x in o["pchg"]) + "]"
        items.append(f"Build_obs ({coq_out(o['out'])}) {cn} {tk} {fn} {pc} {o['calls']}")
    return "[" + ";\n  ".join(items) + "]"


def case_defs(name: str, config, nfs, obs) -> str:
    return (f"Definition c_{name} := {coq_cfg(config, nfs)}.\n"
            f"Definition h_{name} : list step_input := {coq_hist(obs, nfs)}.\n"
            f"Definition o_{name} : list obs := {coq_obs(obs)}.\n")


def eval_cases(ck: Check, tag: str, cases: list, per_file: int = 40, with_show: bool = False) -> list:
    """cases: list of (config, nfs, obs).  Returns per case (agree, behaviour_checkb, checkb[, model text])."""
    sources = {}
    for fi, chunk in enumerate(common.chunks(list(enumerate(cases)), per_file)):
        parts = [HEADER]
        rows = []
        for i, (config, nfs, obs) in chunk:
            nm = f"{i}"
            parts.append(case_defs(nm, config, nfs, obs))
            order_ok = all(o["order_ok"] for o in obs)
            rows.append(f"andb {coq_bool(order_ok)} (agree c_{nm} h_{nm} o_{nm}); C13_behaviour_checkb c_{nm} h_{nm} o_{nm}; C13_checkb c_{nm} h_{nm} o_{nm}")
        parts.append("Eval vm_compute in show_bools [" + ";\n".join(rows) + "].\n")
        if with_show:
            for i, _ in chunk:
                parts.append(f"Eval vm_compute in show_model c_{i} h_{i}.\n")
        sources[f"c13_{tag}_{fi:04d}"] = "\n".join(parts)
    out = ck.eval_coq(sources)
    res = []
    for fi, chunk in enumerate(common.chunks(list(enumerate(cases)), per_file)):
        vals = out[f"c13_{tag}_{fi:04d}"]
        flat = vals[0]
        assert len(flat) == 3 * len(chunk), (len(flat), len(chunk))
        for j in range(len(chunk)):
            r = [flat[3 * j] == "T", flat[3 * j + 1] == "T", flat[3 * j + 2] == "T"]
            if with_show:
                r.append(vals[1 + j])
            res.append(r)
    return res


# ----------------------------------------------------------------------------------------------
# shrinking and reporting


def signature_of(config, history) -> str:
    """Stable signature of a failing input: computed from the input only."""
    sel_changes = sum(1 for a, b in zip(history, history[1:]) if a["present"] != b["present"])
    faults = any(c == "raise" for s in history for row in s["script"] for c in row)
    nonfin = any(c in ("nan", "inf", "ovf") for s in history for row in s["script"] for c in row) or any(p for s in history for p in s["poison"])
    return "C13:" + ("mask-change+" if sel_changes else "const-mask+") + ("failures" if faults else "nofail") + ("+nonfinite" if nonfin else "")


def drop_param(config, history, b2p, pi):
    keep_b = [b for b, q in enumerate(b2p) if q != pi]
    cfg2 = dict(config, shapes=[sh for j, sh in enumerate(config["shapes"]) if j != pi])
    h2 = [dict(s, present=[x for j, x in enumerate(s["present"]) if j != pi], poison=[x for j, x in enumerate(s["poison"]) if j != pi],
               script=[s["script"][b] for b in keep_b]) for s in history]
    return cfg2, h2


def shrink(ck: Check, pool, case, which: int, tag: str = "main"):
    """Greedy shrink of a failing case (which: 1 = behaviour checker false, 2 = full checker false)."""
    config, history, nfs, b2p, obs = case["config"], list(case["history"]), case["nfs"], case["b2p"], case["obs"]
    # 1. shortest failing prefix (a prefix of a run is the run of the prefix: no re-run needed)
    pref = [(config, nfs, obs[:L]) for L in range(1, len(history) + 1)]
    keep_class = (lambda cfg, ob: (cfg["kind"] != "shampoo" and any(x == "ovf" for o in ob for row in o["rout"] for x in row)) == (tag == "soapovf"))
    r = eval_cases(ck, f"shr_{tag}_prefix", pref)
    L = next((i + 1 for i, x in enumerate(r) if not x[which] and keep_class(config, obs[:i + 1])), len(history))
    history, obs = history[:L], obs[:L]
    # 2. drop parameters / single steps, simplify steps, while the checker still fails (each candidate is re-run)
    for _round in range(8):
        cands = []
        if len(config["shapes"]) > 1:
            for pi in range(len(config["shapes"])):
                cands.append(drop_param(config, history, b2p, pi))
        for j in range(len(history) - 1):
            cands.append((config, history[:j] + history[j + 1:]))
        for j in range(len(history)):
            s = history[j]
            if any(c != "ok" for row in s["script"] for c in row) and j < len(history) - 1:
                s2 = dict(s, script=[["ok"] * len(row) for row in s["script"]])
                cands.append((config, history[:j] + [s2] + history[j + 1:]))
            if not all(s["present"]):
                cands.append((config, history[:j] + [dict(s, present=[True] * len(s["present"]))] + history[j + 1:]))
        for key, val in (("mpd", 1024), ("ignored_dims", []), ("graft", False), ("beta1", 0.0), ("beta2", 1.0), ("merge", False)):
            if config.get(key) != val:
                cands.append((dict(config, **{key: val}), history))
        if not cands:
            break
        runs = pool.map(rerun, cands)
        usable = [i for i, x in enumerate(runs) if x is not None]
        if not usable:
            break
        usable = [i for i in usable if keep_class(cands[i][0], runs[i]["obs"])]
        if not usable:
            break
        rr = eval_cases(ck, f"shr_{tag}_{_round}", [(cands[i][0], runs[i]["nfs"], runs[i]["obs"]) for i in usable])
        ok = [(len(runs[i]["nfs"]), len(cands[i][1]), sum(c != "ok" for s in cands[i][1] for row in s["script"] for c in row), i)
              for i, x in zip(usable, rr) if not x[which]]
        if not ok:
            break
        i = min(ok)[3]
        config, history = cands[i]
        nfs, b2p, obs = runs[i]["nfs"], runs[i]["b2p"], runs[i]["obs"]
    return config, history, nfs, obs


def describe(config, history, obs, nfs) -> str:
    rows = []
    for t, (s, o) in enumerate(zip(history, obs), start=1):
        nonfin = "" if all(all(r) for r in o["fins"]) else f" STORED-NONFINITE={o['fins']}"
        fmnf = "" if all(all(r) for r in o["fmf"]) else f" factor-matrix-finite={o['fmf']}"
        rows.append(f"t{t}: present={''.join('1' if x else '0' for x in o['present_b'])} routine={o['rout']}{fmnf} -> {o['out']} counters={o['cnts']} "
                    f"stored-tokens={o['toks']}{nonfin} params-changed={''.join('1' if x else '0' for x in o['pchg'])}")
    return f"{config['kind']} N={config['N']} freq={config['freq']} start={config['start']} nfs={nfs}: " + " | ".join(rows)


# ----------------------------------------------------------------------------------------------


def run(ck: Check) -> None:
    common.assert_repo_imports()
    ck.coq_props()
    gen_targets.run(ck)          # translator tie: Gallina regenerated from the source + coq/gen/EquivC13.v
    thorough = ck.tier == "thorough"
    ncases = 8000 if thorough else 500
    seeds = [(ck.rng.randrange(1 << 40), thorough) for _ in range(ncases)]
    explicit = corpus_cases()
    ncorpus = len(explicit)
    if thorough:
        enum_scopes = [("shampoo", 1, 1, 1, 4), ("soap_qr", 0, 1, 1, 4), ("soap_eigh", 1, 2, 2, 4)]
    else:
        enum_scopes = [("shampoo", 1, 1, 1, 3), ("soap_qr", 0, 1, 1, 3), ("soap_eigh", 1, 1, 2, 3)]
    for sc in enum_scopes:
        explicit += list(enum_cases(*sc))
    with mp.get_context("fork").Pool(16) as pool:
        cases = pool.map(make_explicit, explicit, chunksize=32) + pool.map(make_case, seeds, chunksize=4)
        res = eval_cases(ck, "main", [(c["config"], c["nfs"], c["obs"]) for c in cases], per_file=120)
        bad = [(c, r) for c, r in zip(cases, res) if not r[0]]
        # an exception of the right class whose message does not name a known block cannot be judged by the checker
        # (position unknown): such runs count as disagreements, not as decided violations
        # the same holds when the routine was not queried in the modelled order (the recorded inputs are then misaligned)
        unparsed = lambda c: any((o["out"][0] == "other" and o["out"][1].endswith("(unparsed)")) or not o["order_ok"] for o in c["obs"])  # noqa: E731
        beh_fail = [c for c, r in zip(cases, res) if not r[1] and not unparsed(c)]
        cnt_fail = [c for c, r in zip(cases, res) if r[1] and not r[2] and not unparsed(c)]
        # finding class "SOAP list stores a result that overflows the storage dtype": an eigenvector list whose routine
        # actually returned such a matrix (recorded outcome "ovf") - a predicate over the input, reported separately
        soap_ovf = lambda c: c["config"]["kind"] != "shampoo" and any(x == "ovf" for o in c["obs"] for row in o["rout"] for x in row)  # noqa: E731
        groups = []
        for tag, pred in (("soapovf", soap_ovf), ("main", lambda c: not soap_ovf(c))):
            bf = [c for c in beh_fail if pred(c)]
            cf = [c for c in cnt_fail if pred(c)]
            if bf or cf:
                groups.append((tag, 1 if bf else 2, bf or cf))
        for tag, which, lst in groups:
            lst = sorted(lst, key=lambda c: (len(c["nfs"]), len(c["history"])))
            c0 = lst[0]
            config, history, nfs, obs = shrink(ck, pool, c0, which, tag)
            model = eval_cases(ck, f"rep_{tag}", [(config, nfs, obs)], with_show=True)[0][3]
            if tag == "soapovf":
                what = ("EigenvalueCorrectedShampooPreconditionerList stores a non-finite eigenvector matrix without raising: the NaN/Inf check "
                        "inspects the routine's result in the factor dtype and copy_ narrows it to the parameter dtype afterwards (no cast before "
                        "the check, unlike the Shampoo list); reachable only when the routine returns a finite matrix that overflows the storage dtype: ")
                sig = SOAP_OVERFLOW_SIG
            else:
                what = ("real optimizer violates C13 (raise-iff-consecutive-failures / kept matrix / finite stored / no parameter write on raise): "
                        if which == 1 else
                        "failure counters of the real optimizer are not the number of consecutive failed refreshes (observable behaviour still passes): ")
                sig = signature_of(config, history)
            ck.report(sig, what + describe(config, history, obs, nfs) + f" || model: {model}",
                      {"kind": "property-fails", "config": config, "history": history, "nfs": nfs, "observed": obs, "model": model,
                       "n_failing_cases": len(lst), "predicate": "C13_behaviour_checkb" if which == 1 else "C13_checkb (counter clause)",
                       "original_seed_case": c0["seed"], "original_length": len(c0["history"])})
        if not groups and bad:
            c0, _ = min(bad, key=lambda cr: len(cr[0]["history"]))
            model = eval_cases(ck, "rep", [(c0["config"], c0["nfs"], c0["obs"])], with_show=True)[0][3]
            ck.report(None, f"model/implementation correspondence broken on {len(bad)} histories (Failures.agree false; {sum(1 for c, _ in bad if unparsed(c))} of them with an unreadable exception message or an unexpected query order) and no observed run is decided to violate C13 by C13_checkb; first: "
                      + describe(c0["config"], c0["history"], c0["obs"], c0["nfs"]) + f" || model: {model}",
                      {"kind": "correspondence", "broken": "Failures.agree (model step vs optimizer.step)", "config": c0["config"], "history": c0["history"],
                       "nfs": c0["nfs"], "observed": c0["obs"], "model": model,
                       "theorems_not_transferring": ["C13_raises_iff_consecutive_failures_exceed", "C13_counter_refines", "C13_success_resets",
                                                     "C13_failure_keeps_previous_matrix", "C13_stored_roots_finite", "C13_nan_raises_before_param_update"]},
                      no_failing_input=True)

    # evidence
    def hist(f):
        d = {}
        for c in cases:
            k = str(f(c))
            d[k] = d.get(k, 0) + 1
        return dict(sorted(d.items()))
    outs = {"ok": 0, "tol": 0, "pve": 0, "other": 0}
    nontriv = 0
    mask_and_fail = 0
    steps = 0
    for c in cases:
        steps += len(c["obs"])
        kinds = {o["out"][0] for o in c["obs"]}
        for o in c["obs"]:
            outs[o["out"][0]] += 1
        changes = any(a["present_b"] != b["present_b"] for a, b in zip(c["obs"], c["obs"][1:]))
        failing = any(x > 0 for o in c["obs"] for x in o["cnts"])
        if kinds - {"ok"} or failing:
            nontriv += 1
        if changes and failing:
            mask_and_fail += 1
    smp = []
    for c in (cases[ncorpus + 4321 % max(1, len(explicit) - ncorpus)], cases[len(explicit) + ncases // 2], cases[-1]):
        smp.append({"config": {k: c["config"][k] for k in ("kind", "N", "freq", "start", "shapes", "mpd", "ignored_dims")} | {"pdtype": pdtype_of(c["config"])}, "nfs": c["nfs"],
                    "steps": [{"present": "".join("1" if x else "0" for x in o["present_b"]), "routine": o["rout"], "out": o["out"], "counters": o["cnts"]} for o in c["obs"][:8]]})
    ck.coverage.update({
        "evaluations": len(cases),
        "optimizer_steps": steps,
        "distinct_nontrivial": nontriv,
        "rule": "one evaluation = one (configuration, presence history, fault script) run of the real optimizer compared step by step with the model inside coqc; non-trivial = the run contains an exception or a non-zero failure counter. Sources: corpus/C13/*.json, then every history of the enumerated small scopes (two single-factor blocks, each per step absent/ok/fail; (kind,N,freq,start,length) in enumerated_scopes), then seeded random cases",
        "exhaustive": False,
        "enumerated_scopes": [list(x) for x in enum_scopes], "enumerated_cases": len(explicit) - ncorpus, "corpus_cases": ncorpus, "random_cases": ncases,
        "samples": smp,
        "distribution": {
            "kind": hist(lambda c: c["config"]["kind"]), "N": hist(lambda c: c["config"]["N"]), "freq": hist(lambda c: c["config"]["freq"]),
            "start_minus_freq": hist(lambda c: c["config"]["start"] - c["config"]["freq"]), "local_blocks": hist(lambda c: len(c["nfs"])),
            "factors_per_block": hist(lambda c: sorted(set(c["nfs"]))), "presence": hist(lambda c: c["kinds"]["presence"]),
            "faults": hist(lambda c: c["kinds"]["faults"]), "nonfinite_results": hist(lambda c: c["kinds"]["nonfinite_results"]),
            "nonfinite_gradients": hist(lambda c: c["kinds"]["poison"]),
            "param_dtype/factor_dtype": hist(lambda c: "/".join(PDTYPES[pdtype_of(c["config"])])),
            "histories_with_storage_overflow_result": sum(1 for c in cases if any(x == "ovf" for o in c["obs"] for row in o["rout"] for x in row)),
            "history_length": hist(lambda c: len(c["history"]) // 5 * 5),
            "step_outcomes": outs, "histories_with_mask_change_and_failures": mask_and_fail,
        },
        "disagreements": len(bad), "behaviour_checker_failures": len(beh_fail), "counter_checker_failures": len(cnt_fail),
    })
    ck.assumptions += [
        "the block/factor named by an exception is read from its message (factor_matrix_indices)",
        "a stored matrix is identified with the latest successful routine result it equals bitwise (token), the all-zero matrix with the initial one",
        "the routine's outcome and the finiteness of the inspected factor matrix are recorded from the run (oracle in the loop), the fault script decides the rest",
    ]
    ck.gen_equiv_verdict()


def replay(obj) -> bool:
    common.assert_repo_imports()
    res = run_impl(obj["config"], obj["history"])
    same = True
    for t, (o, r) in enumerate(zip(res["obs"], obj.get("observed", [])), start=1):
        line = f"t{t}: present={''.join('1' if x else '0' for x in o['present_b'])} routine={o['rout']} -> {o['out']} counters={o['cnts']} tokens={o['toks']}"
        if o["out"] != r["out"] or o["cnts"] != r["cnts"]:
            same = False
            line += f"   (recorded: {r['out']} counters={r['cnts']})"
        print(line)
    print("model expects:", obj.get("model"))
    print("implementation behaves as recorded" if same else "implementation behaves differently from the recording")
    return True
