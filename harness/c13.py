"""C13 - failed root computations tolerated N times then raised; stored roots finite.

Drives the real DistributedShampoo (Shampoo and SOAP lists) through gradient-presence histories with fault
scripts injected into the matrix routine, and lets coqc compare every step with the Coq model Failures.step
(exception + the block/factor it names, failure counters, identity and finiteness of every stored matrix,
number of routine calls, parameter-block changes).  On a disagreement the certified checker
C13_behaviour_checkb / C13_checkb decides on the observed run whether the property itself fails.
"""
from __future__ import annotations

import json
import multiprocessing as mp
import random
import re

from harness import common, gen_targets
from harness.common import Check, coq_bool

META = {
    "property_id": "C13",
    "design_ref": "DESIGN.md §4 C13",
    "technique": "Coq proof by induction over step histories on a discrete model of the failure-tolerance protocol (masked index list, per-block counters, per-factor stored-matrix tokens) + correspondence with the real optimizer under injected fault scripts, evaluated by vm_compute inside coqc; certified checker on the observed run",
    "level_text": "Theorems for every history of step inputs (presence selector per block, routine outcome and factor-matrix finiteness per factor), every tolerance N, frequency, start step and block layout, on the Gallina model of DistributedShampoo.step / _amortized_computation / _raise_exception_if_failure_tolerance_exceeded / compress_preconditioner_list: the failure counter equals the number of consecutive failed refreshes the block took part in, computed from the inputs and the exceptions alone (refinement); the tolerance error for block b is raised iff that number exceeds N; a clean refresh resets it; a failed computation keeps the stored matrix; stored matrices are finite in every reachable state, where a routine result that is finite in the factor dtype but overflows the dtype it is stored in (SuccessOverflowsStorage, e.g. a float32 root 1e6 for a float16 parameter) counts as non-finite and makes the step raise; a raising step writes no parameter; NaN/Inf in a factor matrix or computed matrix of a present block at a refresh makes the step raise and the PreconditionerValueError names the first such factor; one warning is logged per failed computation; the model's own observations satisfy the checker's specification. Both list classes follow the same protocol and share the model. The model is tied to the code by running the real optimizer (Shampoo with eigen / coupled-Newton / higher-order roots, SOAP eigh, SOAP QR; 2-4 parameters in one or two twin parameter groups, some blocked, scalar, single-element or empty, some with ignored dims; routine failures of six exception classes, NaN/+Inf/-Inf results at several matrix positions; zero, tiny, huge, non-contiguous and NaN/Inf gradients; parameter/factor dtypes float32/float32, float64/float64, float16/float32, bfloat16/float32, float32/float64) on seeded presence histories x fault scripts x NaN/Inf gradients and comparing every step inside coqc.",
    "level_note": "Trusted: Coq kernel+vm_compute; the hand-written model (checked against the code on the generated histories only); the harness (mock.patch of matrix_inverse_root / matrix_eigenvectors in shampoo_preconditioner_list, parsing of the block/factor named in exception messages, identification of a stored matrix with the routine result it equals bitwise). Matrices are abstracted to tokens: numerical content of roots/eigenvectors is C10-C12's subject. Single process, default Distributor (local blocks = all blocks). The model states the cast-then-check protocol for both list classes; the SOAP list of the code checks before the narrowing copy_, which the check reports as finding C13:soap-eigvec-storage-overflow (reachable only when the eigenvector routine returns a finite matrix that overflows the storage dtype, i.e. under fault injection).",
    "ready": True,
}

KINDS = ("shampoo", "soap_eigh", "soap_qr", "shampoo_newton", "shampoo_higher")
SHAPE_POOL = ((3, 4), (3, 4), (4, 3), (2, 2), (5,), (3,), (2, 3, 2), (4, 6), (1, 3), (1,), ())
CODE2COQ = {"ok": "Success", "raise": "Fail", "nan": "SuccessNonFinite", "inf": "SuccessNonFinite", "-inf": "SuccessNonFinite",
            "ovf": "SuccessOverflowsStorage"}
RAISE_CLASSES = ("RuntimeError", "ValueError", "ArithmeticError", "LinAlgError", "Custom", "PVE")
NONFINITE_CODES = ("nan", "inf", "-inf", "nan:last", "inf:offdiag", "nan:all", "-inf:offdiag")
# parameter (= storage) dtype / preconditioner (factor matrix) dtype; the last three narrow at the store
PDTYPES = {"f32": ("float32", "float32"), "f64": ("float64", "float64"), "f16": ("float16", "float32"),
           "bf16": ("bfloat16", "float32"), "f32_pre64": ("float32", "float64")}
NARROWING = ("f16", "bf16", "f32_pre64")
SOAP_OVERFLOW_SIG = "C13:soap-eigvec-storage-overflow"


def coq_code(code: str) -> str:
    return CODE2COQ[code.split(":")[0]]


def is_shampoo(config) -> bool:
    return config["kind"].startswith("shampoo")


def pdtype_of(config) -> str:
    return config.get("pdtype") or ("f64" if config.get("f64") else "f32")


def groups_of(config) -> list:
    return config.get("groups") or [list(range(len(config["shapes"])))]


def overflow_value(storage_dtype) -> float:
    """A value finite in the factor dtype that is not finite in the storage dtype."""
    import torch
    return {torch.float16: 1e6, torch.bfloat16: 3.4e38, torch.float32: 1e39}[storage_dtype]


class InjectedFailure(Exception):
    pass


# ----------------------------------------------------------------------------------------------
# the implementation side


def build(config):
    """Instantiate parameters + optimizer for a config; returns (params, opt, G) with one record per parameter group."""
    import logging
    import torch
    logging.disable(logging.CRITICAL)
    from distributed_shampoo.distributed_shampoo import DistributedShampoo
    from distributed_shampoo.shampoo_types import (
        AdaGradGraftingConfig, EigenvalueCorrectedShampooPreconditionerConfig, ShampooPreconditionerConfig,
        DISTRIBUTOR, SHAMPOO_PRECONDITIONER_LIST,
    )
    from matrix_functions_types import CoupledHigherOrderConfig, CoupledNewtonConfig, EighEigenvectorConfig, QRConfig

    dtype, pre_dtype = (getattr(torch, x) for x in PDTYPES[pdtype_of(config)])
    g = torch.Generator().manual_seed(config["pseed"])
    params = [torch.nn.Parameter(torch.randn(tuple(sh), generator=g, dtype=torch.float32).to(dtype)) for sh in config["shapes"]]
    kind = config["kind"]
    kw = dict(num_tolerated_failed_amortized_computations=config["N"], ignored_dims=list(config["ignored_dims"]))
    if kind == "shampoo":
        pc = ShampooPreconditionerConfig(**kw)
    elif kind == "shampoo_newton":
        pc = ShampooPreconditionerConfig(amortized_computation_config=CoupledNewtonConfig(max_iterations=20), **kw)
    elif kind == "shampoo_higher":
        pc = ShampooPreconditionerConfig(amortized_computation_config=CoupledHigherOrderConfig(max_iterations=20), **kw)
    elif kind == "soap_eigh":
        pc = EigenvalueCorrectedShampooPreconditionerConfig(amortized_computation_config=EighEigenvectorConfig(), **kw)
    else:
        pc = EigenvalueCorrectedShampooPreconditionerConfig(amortized_computation_config=QRConfig(), **kw)
    groups = groups_of(config)
    opt = DistributedShampoo(
        [{"params": [params[i] for i in grp]} for grp in groups],
        lr=0.01, betas=(config["beta1"], config["beta2"]), epsilon=1e-8 if not is_shampoo(config) else 1e-10,
        max_preconditioner_dim=config["mpd"], precondition_frequency=config["freq"],
        start_preconditioning_step=config["start"], use_merge_dims=config["merge"],
        grafting_config=AdaGradGraftingConfig(epsilon=1e-8) if config["graft"] else None,
        preconditioner_dtype=pre_dtype, preconditioner_config=pc,
        use_bias_correction=config.get("bias_corr", True), weight_decay=config.get("wd", 0.0),
        use_decoupled_weight_decay=config.get("wd_decoupled", True), momentum=config.get("momentum", 0.0),
        inv_root_override=config.get("inv_root_override", 0),
    )
    G = []
    for gi, grp in enumerate(groups):
        sl = opt._per_group_state_lists[gi]
        plist, dist = sl[SHAMPOO_PRECONDITIONER_LIST], sl[DISTRIBUTOR]
        kfs = plist._local_kronecker_factors_list
        stored = [list(kf.inv_factor_matrices if is_shampoo(config) else kf.factor_matrices_eigenvectors) for kf in kfs]
        nfs = [len(kf.factor_matrices) for kf in kfs]
        b2p = [grp[pi] for pi, nbk in enumerate(dist._global_num_blocks_per_param) for _ in range(nbk)]
        G.append({"sl": sl, "plist": plist, "dist": dist, "kfs": kfs, "stored": stored, "nfs": nfs, "b2p": b2p})
    return params, opt, G


def layout(config):
    """(nfs, block->param) over all blocks of all groups in order - the indexing of a history's `script`."""
    _, _, G = build(config)
    return [n for g in G for n in g["nfs"]], [q for g in G for q in g["b2p"]]


def make_grad(torch, p, gen, kind, poison, ppos, pdtype):
    """Gradient of one parameter: standard normal, or one of the special classes."""
    gr = torch.randn(tuple(p.shape), generator=gen, dtype=torch.float32)
    if kind == "zero":
        gr = gr * 0.0                                       # present, exactly zero
    elif kind == "tiny":
        gr = gr * 1e-5
    elif kind == "tiny2":
        gr = gr * 1e-25                                     # squares underflow to exactly zero in float32
    gr = gr.to(p.dtype)
    if gr.numel():
        if kind == "huge":                                  # finite gradient whose outer product overflows the factor dtype
            big = {"f32": 1e30, "f64": 1e200}.get(pdtype)
            if big is not None:
                gr.view(-1)[ppos % gr.numel()] = big
        if poison:
            gr.view(-1)[ppos % gr.numel()] = float(poison)
    if kind == "noncontig" and gr.dim() == 2:
        gr = gr.t().contiguous().t()                        # same values, column-major strides
    return gr


def run_impl(config, history):
    """Run the real optimizer over `history`; returns one view per parameter group with its per-step observations
    (a group has an observation for the steps in which optimizer.step() got to it)."""
    import torch
    from unittest import mock
    import distributed_shampoo.utils.shampoo_preconditioner_list as plmod
    from distributed_shampoo.shampoo_types import PreconditionerValueError, STEP

    params, opt, G = build(config)
    shampoo = is_shampoo(config)
    pdt = pdtype_of(config)
    offs, o = [], 0
    for gr_ in G:
        offs.append(o)
        o += len(gr_["nfs"])
        gr_["idx2bk"] = {s: (b, k) for b, kf in enumerate(gr_["kfs"]) for k, s in enumerate(kf.factor_matrix_indices)}
        gr_["results"] = {(b, k): [] for b in range(len(gr_["nfs"])) for k in range(gr_["nfs"][b])}   # finite successful results
        gr_["obs"] = []
        gr_["tick"] = 0
    real = {"matrix_inverse_root": plmod.matrix_inverse_root, "matrix_eigenvectors": plmod.matrix_eigenvectors}
    st = {}
    exc_classes = {"RuntimeError": RuntimeError, "ValueError": ValueError, "ArithmeticError": ArithmeticError,
                   "LinAlgError": torch.linalg.LinAlgError, "Custom": InjectedFailure, "PVE": PreconditionerValueError}

    def inspected(gi, b, k):
        m = G[gi]["kfs"][b].factor_matrices[k]
        return m / G[gi]["plist"]._bias_correction2 if shampoo else m

    def make_wrapper(name):
        def wrapper(*a, **kw):
            gi = st["cur_group"]                 # set by the pass-through wrapper around each list's _amortized_computation
            plan = st["plan"][gi] if gi is not None else []
            idx = st["calls"][gi] if gi is not None else 0
            A = kw["A"] if "A" in kw else a[0]
            if idx < len(plan):
                b, k, code = plan[idx]
                st["calls"][gi] += 1
                st["last_group"] = gi
                if shampoo:
                    st["order_ok"] &= bool(torch.equal(A, inspected(gi, b, k)))
                else:
                    st["order_ok"] &= A is G[gi]["kfs"][b].factor_matrices[k]
            else:
                gi, b, k, code = None, None, None, "ok"
                st["order_ok"] = False
            rec = st["rec"]
            if code.startswith("raise"):
                rec[(gi, b, k)] = "raise"
                cls = exc_classes[code.split(":")[1]] if ":" in code else RuntimeError
                raise cls("injected failure of the matrix routine")
            sdt = G[gi]["stored"][b][k].dtype if gi is not None else A.dtype      # dtype the result will be stored in
            base = code.split(":")[0]
            if base in ("nan", "inf", "-inf", "ovf") and A.numel() > 0:
                n = A.shape[0]
                r = torch.eye(n, dtype=A.dtype)
                val = float(base) if base != "ovf" else overflow_value(sdt)   # KeyError for a non-narrowing store: never generated
                where = code.split(":")[1] if ":" in code else "first"
                if where == "all":
                    r = torch.full((n, n), val, dtype=A.dtype)
                elif where == "last":
                    r[n - 1, n - 1] = val
                elif where == "offdiag" and n > 1:
                    r[0, n - 1] = val
                else:
                    r[0, 0] = val
            else:
                try:
                    r = real[name](*a, **kw)
                except Exception:
                    rec[(gi, b, k)] = "raise"
                    raise
            # classify what the routine returned: finite / finite only before the narrowing store / not finite
            if not bool(torch.isfinite(r).all()):
                rec[(gi, b, k)] = "nan"
            elif not bool(torch.isfinite(r.to(dtype=sdt)).all()):
                rec[(gi, b, k)] = "ovf"
            else:
                rec[(gi, b, k)] = "ok"
                if gi is not None:
                    G[gi]["results"][(b, k)].append((G[gi]["tick"] + 1, r.detach().clone()))
            return r
        return wrapper

    def on_warning(*a, **kw):
        if st.get("last_group") is not None:
            st["warn"][st["last_group"]] += 1

    def bits(t):
        c = t.detach().clone().contiguous()
        return c.view({8: torch.int64, 4: torch.int32, 2: torch.int16}[c.element_size()])

    def snapshot(gr_):
        return ([bits(x) for x in gr_["dist"]._global_blocked_params], [bits(m) for row in gr_["stored"] for m in row],
                list(getattr(gr_["plist"], "_local_failed_amortized_computation_counter_list", [])))

    def same(x, y):
        return all(bool(torch.equal(a, b)) for a, b in zip(x[0], y[0])) and all(bool(torch.equal(a, b)) for a, b in zip(x[1], y[1])) and x[2] == y[2]

    def passthrough(gi, orig):
        def amortized():
            st["cur_group"] = gi
            try:
                return orig()
            finally:
                st["cur_group"] = None
        return amortized

    for gi, gr_ in enumerate(G):
        gr_["plist"]._amortized_computation = passthrough(gi, gr_["plist"]._amortized_computation)

    with mock.patch.object(plmod, "matrix_inverse_root", make_wrapper("matrix_inverse_root")), \
            mock.patch.object(plmod, "matrix_eigenvectors", make_wrapper("matrix_eigenvectors")), \
            mock.patch.object(plmod.logger, "warning", on_warning):
        for t, stp in enumerate(history, start=1):
            gen = torch.Generator().manual_seed(stp["gseed"])
            gk = stp.get("gkind") or [None] * len(params)
            pp = stp.get("ppos") or [0] * len(params)
            for pi, p in enumerate(params):
                gr = make_grad(torch, p, gen, gk[pi], stp["poison"][pi], pp[pi], pdt)
                p.grad = gr if stp["present"][pi] else None
            plan = []
            for gi, gr_ in enumerate(G):
                gr_["present_b"] = [bool(stp["present"][q]) for q in gr_["b2p"]]
                plan.append([(b, k, stp["script"][offs[gi] + b][k]) for b in range(len(gr_["nfs"])) if gr_["present_b"][b] for k in range(gr_["nfs"][b])])
            st.update(calls=[0] * len(G), warn=[0] * len(G), rec={}, order_ok=True, plan=plan, last_group=None, cur_group=None)
            before = [snapshot(gr_) for gr_ in G]
            steps_before = [int(gr_["sl"][STEP]) for gr_ in G]
            exc = None
            try:
                opt.step()
            except Exception as e:  # noqa
                exc = e
            after = [snapshot(gr_) for gr_ in G]
            advanced = [gi for gi, gr_ in enumerate(G) if int(gr_["sl"][STEP]) != steps_before[gi]]
            graise = (max(advanced) if advanced else 0) if exc is not None else None
            for gi, gr_ in enumerate(G):
                if graise is not None and gi > graise:
                    # step() never got to this group: nothing of it may have changed
                    if not same(before[gi], after[gi]) and G[graise]["obs"]:
                        G[graise]["obs"][-1]["order_ok"] = False
                    continue
                gr_["tick"] += 1
                idx2bk, nfs, stored = gr_["idx2bk"], gr_["nfs"], gr_["stored"]
                if exc is None or gi != graise:
                    out = ["ok"]
                elif type(exc) is PreconditionerValueError:
                    m = re.search(r"factor matrix ([^\s!]+)!", str(exc))
                    out = ["pve", *idx2bk[m.group(1)]] if m and m.group(1) in idx2bk else ["other", "PreconditionerValueError(unparsed)"]
                elif type(exc) is ValueError and "exceeded the allowed tolerance" in str(exc):
                    m = re.search(r"for factors \('([^']+)'", str(exc))
                    out = ["tol", idx2bk[m.group(1)][0]] if m and m.group(1) in idx2bk else ["other", "ValueError(unparsed)"]
                else:
                    out = ["other", type(exc).__name__ + ": " + str(exc)[:120]]
                toks, fins, fmf = [], [], []
                for b in range(len(nfs)):
                    tb, fb, mb = [], [], []
                    for k in range(nfs[b]):
                        s = stored[b][k]
                        tok = -1
                        for (tk, r) in reversed(gr_["results"][(b, k)]):
                            if torch.equal(s, r.to(dtype=s.dtype)):
                                tok = tk
                                break
                        else:
                            if not bool(s.any()):
                                tok = 0
                        tb.append(tok)
                        fb.append(bool(torch.isfinite(s).all()))
                        mb.append(bool(torch.isfinite(inspected(gi, b, k)).all()))
                    toks.append(tb)
                    fins.append(fb)
                    fmf.append(mb)
                cnts = getattr(gr_["plist"], "_local_failed_amortized_computation_counter_list", None)
                gr_["obs"].append({
                    "t": t, "out": out,
                    "cnts": [int(x) for x in cnts] if cnts is not None else [-1] * len(nfs),
                    "toks": toks, "fins": fins,
                    "pchg": [not bool(torch.equal(x, y)) for x, y in zip(before[gi][0], after[gi][0])],
                    "calls": st["calls"][gi], "warn": st["warn"][gi], "order_ok": st["order_ok"],
                    "present_b": gr_["present_b"], "fmf": fmf,
                    # what the routine did where it was called, the script elsewhere
                    "rout": [[st["rec"].get((gi, b, k), stp["script"][offs[gi] + b][k]) for k in range(nfs[b])] for b in range(len(nfs))],
                })
    return {"views": [{"gidx": gi, "nfs": gr_["nfs"], "b2p": gr_["b2p"], "obs": gr_["obs"]} for gi, gr_ in enumerate(G)]}


# ----------------------------------------------------------------------------------------------
# generation

FORCED = ("exc_classes", "nonfinite_positions", "grad_zero", "grad_tiny", "grad_noncontig", "grad_huge", "grad_poison_variants",
          "alternating_equal_shapes", "solver_newton", "solver_higher_order", "two_groups", "no_bias_correction", "weight_decay_momentum",
          "inv_root_override", "large_N", "large_freq", "scalar_or_single_element_param", "storage_f16", "storage_bf16", "storage_f32_pre64",
          "all_dims_ignored", "empty_param", "mixed_factor_outcomes")


def gen_config(rng: random.Random, force: str | None = None) -> dict:
    kind = rng.choice(KINDS[:3] * 3 + KINDS[3:])
    freq = rng.choice((1, 1, 1, 2, 2, 3, 5))
    start = freq + rng.choice((0, 0, 0, 1, 2, freq))
    nparams = rng.randint(2, 4)
    shapes = [list(rng.choice(SHAPE_POOL)) for _ in range(nparams)]
    if rng.random() < 0.5:                     # make sure some blocks have equal shapes
        shapes[1] = list(shapes[0])
    mpd = rng.choice((1024, 1024, 4, 3))
    cfg = {
        "kind": kind, "N": rng.choice((0, 0, 1, 1, 2, 2, 3, 4, 6)), "freq": freq, "start": start, "shapes": shapes,
        "mpd": mpd, "merge": rng.random() < 0.2, "ignored_dims": rng.choice(([], [], [], [0], [1], [0, 1])),
        "beta1": rng.choice((0.0, 0.9)), "beta2": rng.choice((1.0, 0.999, 0.9)), "graft": rng.random() < 0.6,
        "pdtype": rng.choice(("f32", "f32", "f64", "f64", "f16", "f16", "bf16", "f32_pre64")), "pseed": rng.randrange(1 << 30),
        "bias_corr": rng.random() < 0.8, "wd": rng.choice((0.0, 0.0, 0.0, 0.01)), "wd_decoupled": rng.random() < 0.5,
        "momentum": rng.choice((0.0, 0.0, 0.9)), "inv_root_override": rng.choice((0, 0, 0, 2, [1, 2, 4])),
    }
    if rng.random() < 0.15 and nparams >= 2:
        cut = rng.randint(1, nparams - 1)
        cfg["groups"] = [list(range(cut)), list(range(cut, nparams))]
    if force == "solver_newton":
        cfg["kind"] = "shampoo_newton"
    elif force == "solver_higher_order":
        cfg["kind"] = "shampoo_higher"
    elif force == "two_groups":
        cut = rng.randint(1, nparams - 1)
        cfg["groups"] = [list(range(cut)), list(range(cut, nparams))]
    elif force == "no_bias_correction":
        cfg.update(bias_corr=False, beta2=rng.choice((0.999, 0.9)))
    elif force == "weight_decay_momentum":
        cfg.update(wd=0.01, wd_decoupled=rng.random() < 0.5, momentum=0.9)
    elif force == "inv_root_override":
        cfg.update(inv_root_override=rng.choice((1, 2, [1, 2, 4])), kind=rng.choice(("shampoo", "soap_eigh")))
    elif force == "large_N":
        cfg.update(N=rng.choice((5, 6, 8)), freq=1, start=1)
    elif force == "large_freq":
        cfg.update(freq=5, start=rng.choice((5, 6, 7)), N=rng.choice((0, 1)))
    elif force == "scalar_or_single_element_param":
        cfg["shapes"][0] = rng.choice(([], [1], [1, 1]))
    elif force == "empty_param":
        cfg["shapes"][-1] = [0]
    elif force == "all_dims_ignored":
        cfg.update(ignored_dims=[0, 1, 2])
    elif force in ("storage_f16", "storage_bf16", "storage_f32_pre64"):
        cfg["pdtype"] = force[len("storage_"):]
    elif force == "alternating_equal_shapes":
        cfg["shapes"][1] = list(cfg["shapes"][0])
    elif force == "grad_huge":
        cfg["pdtype"] = rng.choice(("f32", "f64"))
    elif force == "grad_noncontig":
        cfg.update(shapes=[[3, 4]] + cfg["shapes"][1:])      # with and without use_merge_dims (reshape since b60e9a9)
    elif force == "mixed_factor_outcomes":
        cfg.update(shapes=[rng.choice(([3, 4], [2, 3, 2], [4, 3]))] + cfg["shapes"][1:], mpd=1024, merge=False, ignored_dims=[],
                   N=rng.choice((0, 1, 2)))
    if force == "inv_root_override":
        cfg["ignored_dims"] = []
    if cfg["ignored_dims"]:
        cfg["inv_root_override"] = 0          # the constructor rejects the combination
    return cfg


def gen_history(rng: random.Random, config: dict, nfs: list, block2param: list, thorough: bool, force: str | None = None) -> tuple[list, dict]:
    nparams, nbk = len(config["shapes"]), len(nfs)
    nrefresh_wanted = config["N"] + rng.randint(2, 5)
    T = min(40 if thorough else 26, config["start"] + config["freq"] * nrefresh_wanted + rng.randint(0, 3))
    pres_kind = rng.choice(("all", "toggle", "toggle", "random", "random", "windows", "alternate"))
    fault_kind = rng.choice(("none", "always", "always", "random", "random", "random", "burst"))
    nonfinite = rng.random() < 0.25        # routine returns NaN/Inf somewhere
    narrowing = pdtype_of(config) in NARROWING
    overflow = narrowing and rng.random() < 0.5   # routine returns a finite matrix that overflows the storage dtype
    poison = rng.random() < 0.15           # a NaN/Inf gradient somewhere
    gkinds = rng.random() < 0.3            # special gradient classes somewhere
    exc_variety = rng.random() < 0.5
    if force == "exc_classes":
        exc_variety, fault_kind = True, rng.choice(("always", "random"))
    elif force == "nonfinite_positions":
        nonfinite = True
    elif force in ("grad_zero", "grad_tiny", "grad_noncontig", "grad_huge"):
        gkinds = True
    elif force == "grad_poison_variants":
        poison = True
    elif force == "alternating_equal_shapes":
        pres_kind = "alternate"
    elif force in ("storage_f16", "storage_bf16", "storage_f32_pre64"):
        overflow = True
    p_pres = rng.choice((0.4, 0.7, 0.9))
    p_fault = rng.choice((0.2, 0.5, 0.8, 1.0))
    period = rng.randint(2, 4)
    always = {(b, k) for b in range(nbk) for k in range(nfs[b]) if rng.random() < 0.5}
    if fault_kind == "always" and not always and any(nfs):
        b = rng.choice([b for b in range(nbk) if nfs[b]])
        always.add((b, rng.randrange(nfs[b])))
    burst = (rng.randint(1, T), rng.randint(2, 3 + 2 * config["N"] * config["freq"]))
    windows = [(rng.randint(1, T), rng.randint(1, T)) for _ in range(nparams)]
    forced_g = {"grad_zero": ("zero",), "grad_tiny": ("tiny", "tiny2"), "grad_noncontig": ("noncontig",), "grad_huge": ("huge",)}.get(force)
    gpool = ("zero", "tiny", "tiny2", "noncontig", "huge")
    hist = []
    for t in range(1, T + 1):
        if pres_kind == "all":
            pres = [True] * nparams
        elif pres_kind == "toggle":
            pres = [pi == 0 or (t + pi) % period != 0 for pi in range(nparams)]
        elif pres_kind == "random":
            pres = [rng.random() < p_pres for _ in range(nparams)]
        elif pres_kind == "alternate":          # parameters 0 and 1 take turns (same count, different pattern)
            pres = [(t + pi) % 2 == 0 if pi < 2 else rng.random() < p_pres for pi in range(nparams)]
        else:
            pres = [min(w) <= t <= max(w) or pi == 0 for pi, w in enumerate(windows)]
        if rng.random() < 0.04:
            pres = [False] * nparams
        script = []
        mixed = [rng.randint(1, max(1, (1 << nfs[b]) - 2)) for b in range(nbk)]     # neither all-ok nor all-fail
        for b in range(nbk):
            row = []
            for k in range(nfs[b]):
                code = "ok"
                if fault_kind == "always" and (b, k) in always:
                    code = "raise"
                elif fault_kind == "random" and rng.random() < p_fault and ((b, k) in always or rng.random() < 0.5):
                    code = "raise"
                elif fault_kind == "burst" and burst[0] <= t < burst[0] + burst[1] and (b, k) in always:
                    code = "raise"
                if force == "mixed_factor_outcomes" and nfs[b] >= 2 and rng.random() < 0.7:
                    # within one block and one refresh: some factors throw, others compute fine ([fail, ok], [ok, fail], [fail, ok, ok] ...)
                    code = "raise" if (mixed[b] >> k) & 1 else "ok"
                if code == "raise" and exc_variety:
                    code = "raise:" + rng.choice(RAISE_CLASSES)
                if nonfinite and rng.random() < (0.08 if force == "nonfinite_positions" else 0.04):
                    code = rng.choice(NONFINITE_CODES)
                if overflow and rng.random() < 0.06:
                    code = rng.choice(("ovf", "ovf", "ovf:last", "ovf:offdiag"))
                row.append(code)
            script.append(row)
        pz = [rng.choice(("nan", "inf", "-inf")) if (poison and pres[pi] and rng.random() < (0.12 if force == "grad_poison_variants" else 0.06)) else None
              for pi in range(nparams)]
        if forced_g:
            gk = [rng.choice(forced_g) if rng.random() < 0.5 else None for _ in range(nparams)]
        elif gkinds:
            gk = [rng.choice(gpool) if rng.random() < 0.2 else None for _ in range(nparams)]
        else:
            gk = [None] * nparams
        hist.append({"present": pres, "script": script, "gseed": rng.randrange(1 << 30), "poison": pz,
                     "gkind": gk, "ppos": [rng.randrange(64) for _ in range(nparams)]})
    return hist, {"presence": pres_kind, "faults": fault_kind, "nonfinite_results": nonfinite, "poison": poison, "storage_overflow": overflow,
                  "forced": force}


def views_to_cases(base: dict, res: dict) -> list:
    return [dict(base, gidx=v["gidx"], nfs=v["nfs"], b2p=v["b2p"], obs=v["obs"]) for v in res["views"] if v["obs"]] or \
           [dict(base, gidx=0, nfs=res["views"][0]["nfs"], b2p=res["views"][0]["b2p"], obs=[])]


def make_case(seed_tier):
    seed, thorough, force = seed_tier
    rng = random.Random(seed)
    config = gen_config(rng, force)
    nfs, block2param = layout(config)
    history, kinds = gen_history(rng, config, nfs, block2param, thorough, force)
    res = run_impl(config, history)
    return views_to_cases({"seed": seed, "config": config, "history": history, "kinds": kinds}, res)


def make_explicit(args):
    config, history, kinds = args
    res = run_impl(config, history)
    return views_to_cases({"seed": None, "config": config, "history": history, "kinds": kinds}, res)


ENUM_BASE = {"shapes": [[3], [3]], "mpd": 1024, "merge": False, "ignored_dims": [], "beta1": 0.0, "beta2": 1.0, "graft": False,
             "pdtype": "f32", "pseed": 7}


def enum_cases(kind: str, N: int, freq: int, start: int, length: int):
    """Every history of `length` steps over two single-factor blocks, each block per step absent / present+ok / present+fail."""
    import itertools
    config = dict(ENUM_BASE, kind=kind, N=N, freq=freq, start=start)
    per_step = list(itertools.product((0, 1, 2), repeat=2))
    for hi, combo in enumerate(itertools.product(per_step, repeat=length)):
        hist = [{"present": [x != 0 for x in stp], "script": [["raise" if x == 2 else "ok"] for x in stp],
                 "gseed": 1000 + 17 * t, "poison": [None, None]} for t, stp in enumerate(combo)]
        yield (config, hist, {"presence": "enumerated", "faults": "enumerated", "nonfinite_results": False, "poison": False})


def enum_factor_cases(kind: str, N: int, shape: list, length: int):
    """Every history of `length` refresh steps over ONE block with len(shape) factors: per step the block is absent or
    present with every combination of per-factor outcomes ok / fail."""
    import itertools
    nf = len(shape)
    config = dict(ENUM_BASE, kind=kind, N=N, freq=1, start=1, shapes=[list(shape)])
    per_step = [None] + list(itertools.product(("ok", "raise"), repeat=nf))
    for combo in itertools.product(per_step, repeat=length):
        hist = [{"present": [stp is not None], "script": [list(stp) if stp is not None else ["ok"] * nf],
                 "gseed": 2000 + 13 * t, "poison": [None]} for t, stp in enumerate(combo)]
        yield (config, hist, {"presence": "enumerated", "faults": "enumerated-per-factor", "nonfinite_results": False, "poison": False})


def corpus_cases():
    d = common.ROOT / "corpus" / "C13"
    out = []
    for f in sorted(d.glob("*.json")) if d.exists() else []:
        o = json.loads(f.read_text())
        out.append((o["config"], o["history"], {"presence": "corpus", "faults": "corpus", "nonfinite_results": False, "poison": False}))
    return out


def rerun(args):
    """Re-run a shrink candidate; returns the view of group `gidx` or None."""
    config, history, gidx = args
    try:
        nfs, _ = layout(config)
        if any(len(st["script"]) != len(nfs) or any(len(row) != n for row, n in zip(st["script"], nfs)) for st in history):
            return None          # the candidate changed the block layout: the script no longer fits
        views = run_impl(config, history)["views"]
        return views[gidx] if gidx < len(views) and views[gidx]["obs"] else None
    except Exception:  # noqa
        return None


# ----------------------------------------------------------------------------------------------
# Coq literals

HEADER = """From Coq Require Import String.
From Coq Require Import List ZArith Bool.
From Shampoo Require Import Show Failures FailuresProofs FailuresChecker.
Import ListNotations.
"""


def coq_cfg(config, nfs) -> str:
    return f"{{| tol := {config['N']}; freq := {config['freq']}; start := {config['start']}; nfs := [{'; '.join(map(str, nfs))}] |}}"


def coq_hist(obs, nfs) -> str:
    steps = []
    for o in obs:
        blocks = []
        for b in range(len(nfs)):
            fis = "; ".join(f"fi {coq_bool(o['fmf'][b][k])} {coq_code(o['rout'][b][k])}" for k in range(nfs[b]))
            blocks.append(f"bi {coq_bool(o['present_b'][b])} [{fis}]")
        steps.append("si [" + "; ".join(blocks) + "]")
    return "[" + ";\n  ".join(steps) + "]"


def coq_out(out) -> str:
    if out[0] == "ok":
        return "Some Ok"
    if out[0] == "tol":
        return f"Some (RaiseTol {out[1]})"
    if out[0] == "pve":
        return f"Some (RaisePVE {out[1]} {out[2]})"
    return "None"


def coq_obs(obs) -> str:
    items = []
    for o in obs:
        cn = "[" + "; ".join(str(max(0, x)) if x >= 0 else "999999" for x in o["cnts"]) + "]"
        tk = "[" + "; ".join("[" + "; ".join(f"({x})" for x in row) + "]" for row in o["toks"]) + "]%Z"
        fn = "[" + "; ".join("[" + "; ".join(coq_bool(x) for x in row) + "]" for row in o["fins"]) + "]"
        pc = "[" + "; ".join(coq_bool(x) for x in o["pchg"]) + "]"
        items.append(f"Build_obs ({coq_out(o['out'])}) {cn} {tk} {fn} {pc} {o['calls']} {o.get('warn', 0)}")
    return "[" + ";\n  ".join(items) + "]"


def case_defs(name: str, config, nfs, obs) -> str:
    return (f"Definition c_{name} := {coq_cfg(config, nfs)}.\n"
            f"Definition h_{name} : list step_input := {coq_hist(obs, nfs)}.\n"
            f"Definition o_{name} : list obs := {coq_obs(obs)}.\n")


def eval_cases(ck: Check, tag: str, cases: list, per_file: int = 40, with_show: bool = False) -> list:
    """cases: list of (config, nfs, obs).  Returns per case (agree, behaviour_checkb, checkb[, model text])."""
    sources = {}
    for fi, chunk in enumerate(common.chunks(list(enumerate(cases)), per_file)):
        parts = [HEADER]
        rows = []
        for i, (config, nfs, obs) in chunk:
            nm = f"{i}"
            parts.append(case_defs(nm, config, nfs, obs))
            order_ok = all(o["order_ok"] for o in obs)
            rows.append(f"andb {coq_bool(order_ok)} (agree c_{nm} h_{nm} o_{nm}); C13_behaviour_checkb c_{nm} h_{nm} o_{nm}; C13_checkb c_{nm} h_{nm} o_{nm}")
        parts.append("Eval vm_compute in show_bools [" + ";\n".join(rows) + "].\n")
        if with_show:
            for i, _ in chunk:
                parts.append(f"Eval vm_compute in show_model c_{i} h_{i}.\n")
        sources[f"c13_{tag}_{fi:04d}"] = "\n".join(parts)
    out = ck.eval_coq(sources)
    res = []
    for fi, chunk in enumerate(common.chunks(list(enumerate(cases)), per_file)):
        vals = out[f"c13_{tag}_{fi:04d}"]
        flat = vals[0]
        assert len(flat) == 3 * len(chunk), (len(flat), len(chunk))
        for j in range(len(chunk)):
            r = [flat[3 * j] == "T", flat[3 * j + 1] == "T", flat[3 * j + 2] == "T"]
            if with_show:
                r.append(vals[1 + j])
            res.append(r)
    return res


# ----------------------------------------------------------------------------------------------
# shrinking and reporting


def signature_of(config, history) -> str:
    """Stable signature of a failing input: computed from the input only."""
    sel_changes = sum(1 for a, b in zip(history, history[1:]) if a["present"] != b["present"])
    faults = any(c.startswith("raise") for s in history for row in s["script"] for c in row)
    nonfin = any(c.split(":")[0] in ("nan", "inf", "-inf", "ovf") for s in history for row in s["script"] for c in row) or any(p for s in history for p in s["poison"])
    return "C13:" + ("mask-change+" if sel_changes else "const-mask+") + ("failures" if faults else "nofail") + ("+nonfinite" if nonfin else "")


def drop_param(config, history, pi):
    """Candidate without parameter pi (single-group configurations only)."""
    _, b2p = layout(config)
    keep_b = [b for b, q in enumerate(b2p) if q != pi]
    cfg2 = dict(config, shapes=[sh for j, sh in enumerate(config["shapes"]) if j != pi])
    cfg2.pop("groups", None)
    drop = lambda xs: [x for j, x in enumerate(xs) if j != pi]  # noqa: E731
    h2 = [dict(s, present=drop(s["present"]), poison=drop(s["poison"]), script=[s["script"][b] for b in keep_b],
               **({"gkind": drop(s["gkind"])} if s.get("gkind") else {}), **({"ppos": drop(s["ppos"])} if s.get("ppos") else {})) for s in history]
    return cfg2, h2


def soap_ovf_obs(config, obs) -> bool:
    """Class of finding F12 (repaired in /repo as 97ae504): an eigenvector list whose routine returned a matrix that
    overflows the storage dtype, and a stored matrix that is not finite."""
    return ((not is_shampoo(config)) and any(x == "ovf" for o in obs for row in o["rout"] for x in row)
            and any(not all(r) for o in obs for r in o["fins"]))


def shrink(ck: Check, pool, case, which: int, tag: str = "main"):
    """Greedy shrink of a failing case (which: 1 = behaviour checker false, 2 = full checker false)."""
    config, history, nfs, obs, gidx = case["config"], list(case["history"]), case["nfs"], case["obs"], case["gidx"]
    keep_class = lambda cfg, ob: soap_ovf_obs(cfg, ob) == (tag == "soapovf")  # noqa: E731
    # 1. shortest failing prefix (a prefix of a run is the run of the prefix: no re-run needed)
    pref = [(config, nfs, obs[:L]) for L in range(1, len(obs) + 1)]
    r = eval_cases(ck, f"shr_{tag}_prefix", pref)
    L = next((i + 1 for i, x in enumerate(r) if not x[which] and keep_class(config, obs[:i + 1])), len(obs))
    history, obs = history[:obs[L - 1]["t"]], obs[:L]
    # 2. drop parameters / single steps, simplify steps and options, while the checker still fails (each candidate is re-run)
    for _round in range(8):
        cands = []
        single = len(groups_of(config)) == 1
        if single and len(config["shapes"]) > 1:
            for pi in range(len(config["shapes"])):
                cands.append(drop_param(config, history, pi))
        for j in range(len(history) - 1):
            cands.append((config, history[:j] + history[j + 1:]))
        for j in range(len(history)):
            s = history[j]
            if any(c != "ok" for row in s["script"] for c in row) and j < len(history) - 1:
                s2 = dict(s, script=[["ok"] * len(row) for row in s["script"]])
                cands.append((config, history[:j] + [s2] + history[j + 1:]))
            if not all(s["present"]):
                cands.append((config, history[:j] + [dict(s, present=[True] * len(s["present"]))] + history[j + 1:]))
            if any(s.get("gkind") or []):
                cands.append((config, history[:j] + [dict(s, gkind=[None] * len(s["present"]))] + history[j + 1:]))
        for key, val in (("mpd", 1024), ("ignored_dims", []), ("graft", False), ("beta1", 0.0), ("beta2", 1.0), ("merge", False),
                         ("bias_corr", True), ("wd", 0.0), ("momentum", 0.0), ("inv_root_override", 0), ("pdtype", "f32")):
            if config.get(key, val) != val:
                cands.append((dict(config, **{key: val}), history))
        if not single and gidx == 0:
            cands.append(({k: v for k, v in config.items() if k != "groups"}, history))
        if not cands:
            break
        runs = pool.map(rerun, [(cfg, h, gidx) for cfg, h in cands])
        usable = [i for i, x in enumerate(runs) if x is not None and keep_class(cands[i][0], x["obs"])]
        if not usable:
            break
        rr = eval_cases(ck, f"shr_{tag}_{_round}", [(cands[i][0], runs[i]["nfs"], runs[i]["obs"]) for i in usable])
        ok = [(len(groups_of(cands[i][0])), len(runs[i]["nfs"]), len(cands[i][1]), sum(c != "ok" for s in cands[i][1] for row in s["script"] for c in row), i)
              for i, x in zip(usable, rr) if not x[which]]
        if not ok:
            break
        i = min(ok)[-1]
        config, history = cands[i]
        nfs, obs = runs[i]["nfs"], runs[i]["obs"]
    return config, history, nfs, obs


def describe(config, obs, nfs, gidx=0) -> str:
    rows = []
    for o in obs:
        nonfin = "" if all(all(r) for r in o["fins"]) else f" STORED-NONFINITE={o['fins']}"
        fmnf = "" if all(all(r) for r in o["fmf"]) else f" factor-matrix-finite={o['fmf']}"
        rows.append(f"t{o['t']}: present={''.join('1' if x else '0' for x in o['present_b'])} routine={o['rout']}{fmnf} -> {o['out']} counters={o['cnts']} "
                    f"stored-tokens={o['toks']}{nonfin} params-changed={''.join('1' if x else '0' for x in o['pchg'])} warnings={o.get('warn')}")
    grp = f" group {gidx} of {groups_of(config)}" if len(groups_of(config)) > 1 else ""
    return (f"{config['kind']} {'/'.join(PDTYPES[pdtype_of(config)])} N={config['N']} freq={config['freq']} start={config['start']} nfs={nfs}{grp}: "
            + " | ".join(rows))


def classes_of(c) -> list:
    """Input classes (quantifier audit) a generated case belongs to; measured on what was actually run."""
    cfg, hist_, obs = c["config"], c["history"], c["obs"]
    scripts = [code for s in hist_ for row in s["script"] for code in row]
    out = ["kind:" + cfg["kind"], "dtype:" + "/".join(PDTYPES[pdtype_of(cfg)]), f"N={cfg['N']}" if cfg["N"] <= 4 else "N>=5",
           f"freq={cfg['freq']}", "start==freq" if cfg["start"] == cfg["freq"] else "start>freq"]
    for code in set(scripts):
        if code.startswith("raise"):
            out.append("routine_raises:" + (code.split(":")[1] if ":" in code else "RuntimeError"))
        elif code != "ok":
            out.append("routine_returns:" + code)
    rec = {x for o in obs for row in o["rout"] for x in row}
    if "ovf" in rec:
        out.append("result_overflows_storage_dtype(recorded)")
    for o in obs:
        if o["calls"] > 0:
            for pb, row in zip(o["present_b"], o["rout"]):
                if pb and "raise" in row and "ok" in row:
                    out.append("refresh_with_failed_and_successful_factor_in_one_block")
                    if row.index("raise") < len(row) - 1 - row[::-1].index("ok"):
                        out.append("factor_succeeds_after_an_earlier_factor_of_the_block_failed")
                    if row.index("ok") < len(row) - 1 - row[::-1].index("raise"):
                        out.append("factor_fails_after_an_earlier_factor_of_the_block_succeeded")
    if any(o["out"][0] == "pve" for o in obs):
        out.append("step_raises_PreconditionerValueError")
    if any(o["out"][0] == "tol" for o in obs):
        out.append("step_raises_tolerance_ValueError")
    if sum(1 for o in obs if o["out"][0] != "ok") >= 2:
        out.append("history_continues_after_an_exception")
    if any(not all(all(r) for r in o["fmf"]) for o in obs):
        out.append("factor_matrix_nonfinite_at_some_step")
    for s in hist_:
        for pz in s["poison"]:
            if pz:
                out.append("gradient_contains:" + pz)
        for gk, pr in zip(s.get("gkind") or [], s["present"]):
            if gk and pr:
                out.append("gradient:" + gk)
        if not any(s["present"]):
            out.append("step_without_any_gradient")
    changes = any(a["present_b"] != b["present_b"] for a, b in zip(obs, obs[1:]))
    failing = any(x > 0 for o in obs for x in o["cnts"])
    if changes and failing:
        out.append("selector_changes_while_a_count_is_nonzero")
    if cfg["freq"] > 1 and any(a["present"] != b["present"] for a, b in zip(hist_, hist_[1:])):
        out.append("blocks_enter_or_leave_between_refreshes(freq>1)")
    if c["kinds"]["presence"] == "alternate":
        out.append("two_parameters_alternate(same_count_different_pattern)")
    shp = [tuple(x) for x in cfg["shapes"]]
    if len(set(shp)) < len(shp):
        out.append("equal_shaped_parameters")
    if any(len(x) == 0 or (len(x) >= 1 and all(d == 1 for d in x)) for x in shp):
        out.append("scalar_or_single_element_parameter")
    if any(0 in x for x in shp):
        out.append("empty_parameter")
    if len(c["nfs"]) > len([q for q in set(c["b2p"])]):
        out.append("parameter_split_into_several_blocks")
    if 0 in c["nfs"]:
        out.append("block_without_factors")
    if any(n >= 3 for n in c["nfs"]):
        out.append("block_with_3_factors")
    if len(groups_of(cfg)) > 1:
        out.append("two_parameter_groups")
        if c["gidx"] > 0:
            out.append("two_parameter_groups:second_group_view")
    if not cfg.get("bias_corr", True):
        out.append("use_bias_correction=False")
    if cfg.get("wd", 0.0):
        out.append("weight_decay" + ("(decoupled)" if cfg.get("wd_decoupled", True) else "(L2)"))
    if cfg.get("momentum", 0.0):
        out.append("momentum")
    if cfg.get("inv_root_override", 0):
        out.append("inv_root_override")
    if cfg["merge"]:
        out.append("use_merge_dims")
    if cfg["graft"]:
        out.append("grafting")
    if cfg["beta2"] < 1.0:
        out.append("beta2<1")
    return sorted(set(out))


NOT_EXERCISED = {
    "distributed configurations (DDP/FSDP/HSDP/fully_shard: local block list is a sub-list of the global one)": "single process, default Distributor; C06-C08 cover the distributors, the counter protocol is per local list",
    "CUDA / eigen_decomp_offload_device / PT2-compiled step": "CPU-only sandbox; _amortized_computation is torch.compiler.disable'd",
    "BaseException (KeyboardInterrupt, SystemExit) thrown by the routine": "not an Exception: propagates by design, would abort the harness worker",
    "bfloat16/float16 *factor* matrices (preconditioner_dtype half)": "torch CPU has no eigh/qr kernels for half dtypes: every refresh would fail for a platform reason, not exercise the protocol differently",
    "float16 storage overflow of a real SOAP eigenvector matrix": "impossible: orthonormal columns have entries of magnitude <= 1; only reachable by injection (exercised)",
    "state restored from a checkpoint between failures": "C09's subject (counters are not part of the checkpoint)",
    "text of the logged warning": "only the number of warnings per step is compared",
    "more than two parameter groups / groups with different hyperparameters": "two twin groups exercised; groups are independent instances of the same list class",
}


# ----------------------------------------------------------------------------------------------


def run(ck: Check) -> None:
    common.assert_repo_imports()
    ck.coq_props()
    gen_targets.run(ck)          # translator tie: Gallina regenerated from the source + coq/gen/EquivC13.v
    thorough = ck.tier == "thorough"
    ncases = 5000 if thorough else 350
    nforced = 25 if thorough else 8
    seeds = [(ck.rng.randrange(1 << 40), thorough, None) for _ in range(ncases)]
    seeds += [(ck.rng.randrange(1 << 40), thorough, f) for f in FORCED for _ in range(nforced)]
    explicit = corpus_cases()
    ncorpus = len(explicit)
    if thorough:
        enum_scopes = [("shampoo", 1, 1, 1, 4), ("soap_qr", 0, 1, 1, 4), ("soap_eigh", 1, 2, 2, 4)]
    else:
        enum_scopes = [("shampoo", 1, 1, 1, 3), ("soap_qr", 0, 1, 1, 3), ("soap_eigh", 1, 1, 2, 3)]
    for sc in enum_scopes:
        explicit += list(enum_cases(*sc))
    # one block, every per-factor outcome combination per refresh: (kind, N, shape, length)
    factor_scopes = [("shampoo", 1, [3, 4], 3), ("soap_eigh", 0, [3, 4], 3), ("soap_qr", 1, [2, 3, 2], 2)]
    for sc in factor_scopes:
        explicit += list(enum_factor_cases(*sc))
    flat = lambda ll: [c for l in ll for c in l]  # noqa: E731
    with mp.get_context("fork").Pool(16) as pool:
        cases_explicit = flat(pool.map(make_explicit, explicit, chunksize=32))
        cases_random = flat(pool.map(make_case, seeds, chunksize=4))
        cases = cases_explicit + cases_random
        res = eval_cases(ck, "main", [(c["config"], c["nfs"], c["obs"]) for c in cases], per_file=120)
        bad = [(c, r) for c, r in zip(cases, res) if not r[0]]
        # an exception of the right class whose message does not name a known block cannot be judged by the checker
        # (position unknown): such runs count as disagreements, not as decided violations
        # the same holds when the routine was not queried in the modelled order (the recorded inputs are then misaligned)
        # (an injected routine failure that escapes optimizer.step() is decided: the property says it is tolerated)
        escaped = lambda o: o["out"][0] == "other" and "injected failure of the matrix routine" in o["out"][1]  # noqa: E731
        unparsed = lambda c: any((o["out"][0] == "other" and not escaped(o)) or not o["order_ok"] for o in c["obs"])  # noqa: E731
        beh_fail = [c for c, r in zip(cases, res) if not r[1] and not unparsed(c)]
        cnt_fail = [c for c, r in zip(cases, res) if r[1] and not r[2] and not unparsed(c)]
        # finding class "SOAP list stores a result that overflows the storage dtype" (F12, repaired in /repo as 97ae504): an
        # eigenvector list whose routine actually returned such a matrix (recorded outcome "ovf") - a predicate over the
        # input, reported separately under its own signature
        soap_ovf = lambda c: soap_ovf_obs(c["config"], c["obs"])  # noqa: E731
        groups = []
        for tag, pred in (("soapovf", soap_ovf), ("main", lambda c: not soap_ovf(c))):
            bf = [c for c in beh_fail if pred(c)]
            cf = [c for c in cnt_fail if pred(c)]
            if bf or cf:
                groups.append((tag, 1 if bf else 2, bf or cf))
        for tag, which, lst in groups:
            lst = sorted(lst, key=lambda c: (len(groups_of(c["config"])), len(c["nfs"]), len(c["obs"])))
            c0 = lst[0]
            config, history, nfs, obs = shrink(ck, pool, c0, which, tag)
            model = eval_cases(ck, f"rep_{tag}", [(config, nfs, obs)], with_show=True)[0][3]
            if tag == "soapovf":
                what = ("EigenvalueCorrectedShampooPreconditionerList stores a non-finite eigenvector matrix without raising: the NaN/Inf check "
                        "inspects the routine's result in the factor dtype and copy_ narrows it to the parameter dtype afterwards (no cast before "
                        "the check, unlike the Shampoo list); reachable only when the routine returns a finite matrix that overflows the storage dtype: ")
                sig = SOAP_OVERFLOW_SIG
            else:
                what = ("real optimizer violates C13 (raise-iff-consecutive-failures / failed factor keeps its matrix / successful factor is stored / one warning per failure / finite stored / no parameter write on raise): "
                        if which == 1 else
                        "failure counters of the real optimizer are not the number of consecutive failed refreshes (observable behaviour still passes): ")
                sig = signature_of(config, history)
            ck.report(sig, what + describe(config, obs, nfs, c0["gidx"]) + f" || model: {model}",
                      {"kind": "property-fails", "config": config, "history": history, "nfs": nfs, "gidx": c0["gidx"], "observed": obs, "model": model,
                       "n_failing_cases": len(lst), "predicate": "C13_behaviour_checkb" if which == 1 else "C13_checkb (counter clause)",
                       "original_seed_case": c0["seed"], "original_length": len(c0["history"])})
        if not groups and bad:
            c0, _ = min(bad, key=lambda cr: (len(groups_of(cr[0]["config"])), len(cr[0]["obs"])))
            model = eval_cases(ck, "rep", [(c0["config"], c0["nfs"], c0["obs"])], with_show=True)[0][3]
            ck.report(None, f"model/implementation correspondence broken on {len(bad)} histories (Failures.agree false; {sum(1 for c, _ in bad if unparsed(c))} of them with an unreadable exception message, an unexpected query order or a change in a parameter group step() did not get to) and no observed run is decided to violate C13 by C13_checkb; first: "
                      + describe(c0["config"], c0["obs"], c0["nfs"], c0["gidx"]) + f" || model: {model}",
                      {"kind": "correspondence", "broken": "Failures.agree (model step vs optimizer.step)", "config": c0["config"], "history": c0["history"],
                       "nfs": c0["nfs"], "gidx": c0["gidx"], "observed": c0["obs"], "model": model,
                       "theorems_not_transferring": ["C13_raises_iff_consecutive_failures_exceed", "C13_counter_refines", "C13_success_resets",
                                                     "C13_failure_keeps_previous_matrix", "C13_stored_roots_finite", "C13_nan_raises_before_param_update"]},
                      no_failing_input=True)

    # evidence
    def hist(f):
        d = {}
        for c in cases:
            k = str(f(c))
            d[k] = d.get(k, 0) + 1
        return dict(sorted(d.items()))
    outs = {"ok": 0, "tol": 0, "pve": 0, "other": 0}
    nontriv = 0
    mask_and_fail = 0
    steps = 0
    audit = {}
    for c in cases:
        steps += len(c["obs"])
        kinds = {o["out"][0] for o in c["obs"]}
        for o in c["obs"]:
            outs[o["out"][0]] += 1
        changes = any(a["present_b"] != b["present_b"] for a, b in zip(c["obs"], c["obs"][1:]))
        failing = any(x > 0 for o in c["obs"] for x in o["cnts"])
        if kinds - {"ok"} or failing:
            nontriv += 1
        if changes and failing:
            mask_and_fail += 1
        for cl in classes_of(c):
            audit[cl] = audit.get(cl, 0) + 1
    smp = []
    for c in (cases[ncorpus + 4321 % max(1, len(cases_explicit) - ncorpus)], cases[len(cases_explicit) + len(cases_random) // 3], cases[-1]):
        smp.append({"config": {k: c["config"][k] for k in ("kind", "N", "freq", "start", "shapes", "mpd", "ignored_dims")} | {"pdtype": pdtype_of(c["config"]), "groups": groups_of(c["config"])},
                    "nfs": c["nfs"], "group": c["gidx"],
                    "steps": [{"t": o["t"], "present": "".join("1" if x else "0" for x in o["present_b"]), "routine": o["rout"], "out": o["out"], "counters": o["cnts"], "warnings": o["warn"]} for o in c["obs"][:8]]})
    ck.coverage.update({
        "evaluations": len(cases),
        "optimizer_steps": steps,
        "distinct_nontrivial": nontriv,
        "rule": "one evaluation = one (configuration, presence history, fault script, parameter group) run of the real optimizer compared step by step with the model inside coqc; non-trivial = the run contains an exception or a non-zero failure counter. Sources: corpus/C13/*.json, then every history of the enumerated small scopes (two single-factor blocks, each per step absent/ok/fail; (kind,N,freq,start,length) in enumerated_scopes; one multi-factor block with every per-factor ok/fail combination per refresh; (kind,N,shape,length) in enumerated_per_factor_scopes), then seeded random cases, then seeded cases forced into each class of FORCED",
        "exhaustive": False,
        "enumerated_scopes": [list(x) for x in enum_scopes], "enumerated_per_factor_scopes": [list(x) for x in factor_scopes], "enumerated_cases": len(explicit) - ncorpus, "corpus_cases": ncorpus, "random_cases": ncases,
        "forced_cases_per_class": nforced, "forced_classes": list(FORCED),
        "samples": smp,
        "quantifier_audit": dict(sorted(audit.items())),
        "not_exercised": NOT_EXERCISED,
        "distribution": {
            "kind": hist(lambda c: c["config"]["kind"]), "N": hist(lambda c: c["config"]["N"]), "freq": hist(lambda c: c["config"]["freq"]),
            "start_minus_freq": hist(lambda c: c["config"]["start"] - c["config"]["freq"]), "local_blocks": hist(lambda c: len(c["nfs"])),
            "factors_per_block": hist(lambda c: sorted(set(c["nfs"]))), "presence": hist(lambda c: c["kinds"]["presence"]),
            "faults": hist(lambda c: c["kinds"]["faults"]), "nonfinite_results": hist(lambda c: c["kinds"]["nonfinite_results"]),
            "nonfinite_gradients": hist(lambda c: c["kinds"]["poison"]),
            "param_dtype/factor_dtype": hist(lambda c: "/".join(PDTYPES[pdtype_of(c["config"])])),
            "histories_with_storage_overflow_result": sum(1 for c in cases if any(x == "ovf" for o in c["obs"] for row in o["rout"] for x in row)),
            "history_length": hist(lambda c: len(c["history"]) // 5 * 5),
            "step_outcomes": outs, "histories_with_mask_change_and_failures": mask_and_fail,
            "logged_warnings": sum(o["warn"] for c in cases for o in c["obs"]),
        },
        "disagreements": len(bad), "behaviour_checker_failures": len(beh_fail), "counter_checker_failures": len(cnt_fail),
    })
    ck.assumptions += [
        "the block/factor named by an exception is read from its message (factor_matrix_indices); with two parameter groups the raising group is the last one whose step counter advanced",
        "a stored matrix is identified with the latest successful routine result it equals bitwise (token), the all-zero matrix with the initial one",
        "the routine's outcome and the finiteness of the inspected factor matrix are recorded from the run (oracle in the loop), the fault script decides the rest",
        "warnings are counted by replacing the `warning` method of the preconditioner-list module's logger",
    ]
    ck.gen_equiv_verdict()


def replay(obj) -> bool:
    common.assert_repo_imports()
    views = run_impl(obj["config"], obj["history"])["views"]
    res = views[obj.get("gidx", 0)]
    same = True
    for o, r in zip(res["obs"], obj.get("observed", [])):
        line = f"t{o['t']}: present={''.join('1' if x else '0' for x in o['present_b'])} routine={o['rout']} -> {o['out']} counters={o['cnts']} tokens={o['toks']} warnings={o['warn']}"
        if o["out"] != r["out"] or o["cnts"] != r["cnts"] or o["toks"] != r["toks"] or o["fins"] != r["fins"] or o["pchg"] != r["pchg"]:
            same = False
            line += f"   (recorded: {r['out']} counters={r['cnts']} tokens={r['toks']})"
        print(line)
    print("model expects:", obj.get("model"))
    print("implementation behaves as recorded" if same else "implementation behaves differently from the recording")
    return True
