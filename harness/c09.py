"""C09 - checkpoint save/restore at any step resumes the exact trajectory.

On the implementation (serial layout, binary64): for sampled configurations x histories of T steps and for EVERY stop point
k in 0..T: run k steps, `distributed_state_dict(key_to_param=named params)`, deep-copy it (as a checkpoint on disk would be),
build a FRESH optimizer over copies of the parameters at step k, `load_distributed_state_dict` (with key_to_param handed over
in another order), continue to T; every snapshot (all parameters, every tensor reachable from optimizer.state incl. the step
counters, the step-time options of every param_group - as bit patterns) is compared with the uninterrupted run.
The decision is taken by coqc: `C09_checkb` (CheckpointChecker.v) on the observed snapshots / key lists / exception classes.

The tie with the Coq model (Checkpoint.v): per case the optimizer's layout is handed to the model, whose `save_ckpt` must
produce exactly the implementation's parameter keys, flat keys (json-decoded, in iteration order) and param-group keys
(`agree_save`, and the explicit prediction `ppaths`: `agree_paths`), and whose `load_ckpt` must have exactly the outcome class
of `load_distributed_state_dict` on the own checkpoint and on the malformed stream (`agree_load`): one flat key deleted (each
kind: a top-level block entry, an entry inside the Kronecker-factor module, the step), an unknown parameter added, a param
group dropped / renamed, plus (tie only) an extra flat key and a whole parameter entry removed.
"""
from __future__ import annotations

import copy
import json
import logging
import math
import multiprocessing as mp
import struct

from harness import c01, common, gen_targets, optrun
from harness.common import Check, coq_bool

META = {
    "property_id": "C09",
    "design_ref": "DESIGN.md §4 C09",
    "technique": "Coq proof on the executable Gallina model of distributed_state_dict / load_distributed_state_dict (built on the C16 model of "
                 "flatten/unflatten/extract/update_param_state_dict_object and on the C01 model of the step; induction over groups, parameters, "
                 "blocks and histories) + on the implementation: resume-at-every-k versus the uninterrupted run, bit for bit, decided by the "
                 "certified checker C09_checkb inside coqc; exact tie of flat key lists and exception classes with the model (vm_compute)",
    "level_text": "Proved (coq/props/C09.v, all closed under the global context, for every scalar type, every JSON codec with loads(dumps p)=Some p, "
                  "every number of groups/parameters/blocks, every block layout and every history): the step is a function of the saved part of the "
                  "state only (step_reads_only_saved, run_reads_only_saved); stopping after any k steps, saving, loading into a fresh optimizer over "
                  "the parameters of step k and continuing gives Leibniz-equal parameters, state tensors, step counters and options at the end of "
                  "any continuation (resume_eq_uninterrupted); a fresh optimizer always loads its own checkpoint - blocks without any Kronecker factor "
                  "included - and then holds exactly the saved state (load_succeeds_on_own_save, via C16_restore_roundtrip); well-formedness is "
                  "preserved by steps and by construction (wf_reachable); parameter keys, flat keys per parameter and group keys are unique and the "
                  "flat keys are json.dumps of the predicted paths (saved_keys_unique via C16_flatten_injective, flat_keys_distinct, "
                  "block_names_injective for block_i / rank_r-block_i, group_keys_unique when no name contains '/'); a missing flat key of any kind, "
                  "an unknown or stateless parameter -> KeyError, a param-group count/key mismatch -> ValueError (load_rejects_*); checker soundness; "
                  "a non-trivial instance of all hypotheses. Nothing is _partial/_statement. Failure counters, the cached gradient selector and the "
                  "cached bias corrections are outside the saved state: the theorem is about fault-free continuations (stated in props/C09.v).",
    "level_note": "Trusted: Coq kernel + vm_compute; the hand-written model, tied to /repo by exact comparison of key lists / param-group keys / "
                  "exception classes on every generated case and believed only that far; the arithmetic of a step is the C01 model (tied by C01), C09 "
                  "uses only that it is a function of the saved state. Implementation side: serial Distributor layout, parameter/factor dtype pairings f64/f64, f32/f64, f64/f32, bf16/f32, f32/f32 compared on raw bit patterns (the rank_r-block_i "
                  "naming of the DDP layouts is covered by the theorems, DTensor state is not exercised here); bit-for-bit equality is observed on CPU "
                  "with one thread. Tensor shapes/dtypes inside a checkpoint are outside the model (a foreign-shaped tensor raises RuntimeError in "
                  "copy_). param_group options edited between steps are limited to those read at step time (lr, momentum, weight decay).",
    "ready": True,
}

AMORT = [("shampoo", "eigen"), ("soap", "eigh"), ("soap", "qr")]
IGNORED = [[], [0], [0, 1, 2, 3], [], [1], [0], []]
# bfloat16 FACTORS are never used: torch.linalg.qr has no bfloat16 kernel (known finding F11)
DTYPES = [("float64", "float64"), ("float32", "float64"), ("float64", "float32"), ("bfloat16", "float32"), ("float32", "float32"), ("float16", "float32"), ("float64", "float64")]


def _dt(name):
    import torch
    return getattr(torch, name)


def dtypes_of(case):
    pd, fd = case.get("dtypes", ["float64", "float64"])
    return _dt(pd), _dt(fd)
HEADER = """From Coq Require Import ZArith List String Bool.
From Coq Require Uint63. Import PrimInt63.
From Shampoo Require Import Show StateDict Optimizer Checkpoint CheckpointChecker.
Import ListNotations. Open Scope string_scope.
Definition toZ (l : list (list Uint63.int)) : list (list Z) := map (map Uint63.to_Z) l.
"""
ERRS = {"KeyError", "TypeError", "ValueError", "AttributeError", "RuntimeError"}


# ------------------------------------------------------------------------------------------ generation

def gen_case(rng, idx, thorough):
    case = c01.gen_case(rng, thorough)
    c0 = case["groups"][0]["cfg"]
    kind, amort = AMORT[idx % 3]
    c0["kind"], c0["amort"] = kind, amort
    if amort != "eigen":
        c0.pop("expmult", None)
    c0["graft"] = c01.GRAFT[(idx // 3) % 5]
    c0["ignored"] = list(IGNORED[idx % 7])
    if c0["ignored"]:
        c0["override"] = 0
    c0["momentum"] = [0.0, 0.5][(idx // 2) % 2]
    b1 = [0.0, 0.5, 0.875][(idx // 5) % 3]
    c0["betas"] = (b1, c0["betas"][1])
    c0["beta3"] = rng.choice([-1.0, 0.25]) if b1 != 0.0 else -1.0
    c0["max_dim"] = [2, 3, 1024, 1][(idx // 3) % 4]
    # (parameter dtype, preconditioner_dtype): the state tensors the lists work on must stay the registered (saved) ones
    # whatever the pairing (a cast may silently return a private copy)
    case["dtypes"] = list(DTYPES[(idx // 3) % len(DTYPES)])
    cap = {1: 6, 2: 12}.get(c0["max_dim"])
    if cap is not None:                                # blocked parameters, but a bounded number of blocks (the model's dicts are association lists)
        small = [sh for sh in c01.SHAPES if math.prod(sh) <= cap]
        for g in case["groups"]:
            g["shapes"] = [sh if math.prod(sh) <= cap else rng.choice(small) for sh in g["shapes"]]
    if idx % 4 == 1:
        c0["start"] = c0["freq"]                       # preconditioning starts early: roots / eigenbases are non-trivial state
    if c0["ignored"] == [0]:
        case["groups"][0]["shapes"] = case["groups"][0]["shapes"][:2] + [[5]]      # a 1-D block whose only dim is ignored (F4)
        for st in case["steps"]:
            st["present"][0] = (st["present"][0] + [True, True, True])[:len(case["groups"][0]["shapes"])]
    # --- input classes named or plainly allowed by the quantifier (quantifier audit) ---
    if idx % 10 == 7:                                  # twin param groups: identical hyperparameters, identical shapes
        case["groups"] = [case["groups"][0], {"overrides": {}, "shapes": copy.deepcopy(case["groups"][0]["shapes"])}]
        for s_, st in enumerate(case["steps"]):
            row = st["present"][0]
            st["present"] = [row, [not x for x in row] if s_ % 2 else list(row)]
        case["variant"] = "twin_groups"
    elif idx % 6 == 4:                                 # two equal-shaped parameters whose gradients alternate (same count, other pattern)
        sh = rng.choice([[3, 4], [2, 3], [5], [2, 2, 2]])
        case["groups"][0]["shapes"] = [sh, list(sh)] + case["groups"][0]["shapes"][2:3]
        for s_, st in enumerate(case["steps"]):
            st["present"][0] = ([s_ % 2 == 0, s_ % 2 == 1] + st["present"][0][2:3] + [True])[:len(case["groups"][0]["shapes"])]
        case["variant"] = "alternating_equal_shapes"
    case["gmode"] = ["normal", "zero_present", "tiny", "noncontiguous", "normal", "zero_present_all_once"][(idx // 2) % 6]
    case["names"] = ["default", "default", "default", "slash_dot", "odd"][idx % 5]
    hi = 8 if thorough else 6
    T = max(rng.randint(3, hi), rng.randint(3, hi))
    steps = case["steps"][:T]
    while len(steps) < T:
        steps.append(copy.deepcopy(steps[-1]))
        steps[-1]["gseed"] = rng.randrange(1 << 30)
    ngroups = len(case["groups"])
    for s, st in enumerate(steps):                     # lr / momentum / weight-decay schedules through param_groups
        st["edits"] = None
        if s > 0 and rng.random() < 0.35:
            gi = rng.randrange(ngroups)
            eff = optrun.effective_cfg(case, gi)
            which = rng.choice(["lr", "lr", "momentum", "wd", "freq", "dampening", "nesterov", "beta3"])
            if which == "momentum" and eff["momentum"] == 0.0:
                which = "lr"
            if which == "beta3" and eff["betas"][0] == 0.0:
                which = "wd"
            ed = [None] * ngroups
            ed[gi] = {which: {"lr": rng.choice([0.25, 0.0625, 0.03125]), "wd": rng.choice([0.0, 0.125]), "momentum": rng.choice([0.25, 0.75]),
                              "freq": rng.choice([1, 2, 3]), "dampening": rng.choice([0.0, 0.5]), "nesterov": rng.random() < 0.5,
                              "beta3": rng.choice([0.125, 0.5])}[which]}
            st["edits"] = ed
    if case["gmode"].startswith("zero_present"):       # a PRESENT gradient that is exactly zero (on one parameter / on every parameter) at one step
        s_ = rng.randrange(len(steps))
        steps[s_]["gzero"] = "all" if case["gmode"].endswith("all_once") else [0, rng.randrange(len(case["groups"][0]["shapes"]))]
        if steps[s_]["gzero"] != "all":
            steps[s_]["present"][0][steps[s_]["gzero"][1]] = True
    case["steps"] = steps
    return case


def set_grads(case, params, st):
    """optrun.set_grads + the gradient classes of the audit: present-but-zero, tiny (exact power-of-two scale), non-default memory layout."""
    import torch
    optrun.set_grads(case, params, st)
    mode = case.get("gmode", "normal")
    gz = st.get("gzero")
    for gi, ps in enumerate(params):
        for pi, p in enumerate(ps):
            if p.grad is None:
                continue
            if gz == "all" or gz == [gi, pi]:
                p.grad = torch.zeros_like(p.grad)
            elif mode == "tiny":
                p.grad = p.grad * (2.0 ** -17)
            elif mode == "noncontiguous" and p.grad.dim() >= 2:
                p.grad = p.grad.transpose(0, -1).contiguous().transpose(0, -1)


def has_leafless(layout):
    return any(b["nf"] == 0 for g in layout for b in g["blocks"])


# ------------------------------------------------------------------------------------------ implementation side

def _bits(t):
    import torch
    t = t.detach().contiguous().reshape(-1)
    if t.dtype == torch.float64:
        return t.view(torch.int64).tolist()
    if t.dtype == torch.float32:
        return t.view(torch.int32).to(torch.int64).tolist()
    if t.dtype in (torch.bfloat16, torch.float16):
        return t.view(torch.int16).to(torch.int64).tolist()
    return t.to(torch.int64).tolist()


def _fbits(x):
    return struct.unpack("<q", struct.pack("<d", float(x)))[0]


def walk(obj, path, out):
    """Every tensor reachable from a parameter state (own walker: dicts, OptimizerModule attributes, tuples/lists)."""
    import torch
    from optimizer_modules import OptimizerModule
    if isinstance(obj, torch.Tensor):
        out.append((path, obj))
    elif isinstance(obj, dict):
        for k, v in obj.items():
            walk(v, path + [k], out)
    elif isinstance(obj, OptimizerModule):
        for k, v in vars(obj).items():
            walk(v, path + [k], out)
    elif isinstance(obj, (list, tuple)):
        for i, v in enumerate(obj):
            walk(v, path + [i], out)


def live_tensors(opt):
    """The tensors the optimizer actually WORKS on (the lists of the preconditioner objects, the momentum / filtered-gradient lists,
    the step counters), keyed like the state tensor each of them must be: (parameter, json path in optimizer.state[parameter])."""
    from distributed_shampoo.shampoo_types import (FILTERED_GRAD_LIST, GRAFTING_PRECONDITIONER_LIST, MOMENTUM_LIST, SHAMPOO_PRECONDITIONER_LIST,
                                                   STEP)
    live = {}
    for gi, g in enumerate(opt.param_groups):
        sl = opt._per_group_state_lists[gi]
        blocks, infos = optrun.group_handles(opt, gi)
        kfl = getattr(sl[SHAMPOO_PRECONDITIONER_LIST], "_local_kronecker_factors_list", None)
        gl = getattr(sl.get(GRAFTING_PRECONDITIONER_LIST), "_local_preconditioner_list", None)
        for j, info in enumerate(infos):
            name, p = info.composable_block_ids[1], info.param
            if kfl is not None:
                for attr, val in vars(kfl[j]).items():
                    if isinstance(val, (tuple, list)):
                        for i, t in enumerate(val):
                            live[(p, json.dumps([name, "shampoo", attr, i]))] = t
                    else:
                        live[(p, json.dumps([name, "shampoo", attr]))] = val
            if gl is not None:
                live[(p, json.dumps([name, "adagrad"]))] = gl[j]
            if MOMENTUM_LIST in sl:
                live[(p, json.dumps([name, "momentum"]))] = sl[MOMENTUM_LIST][j]
            if FILTERED_GRAD_LIST in sl:
                live[(p, json.dumps([name, "filtered_grad"]))] = sl[FILTERED_GRAD_LIST][j]
        live[(g["params"][0], json.dumps(["step"]))] = sl[STEP]
    return live


def snapshot(opt, params, live=None):
    """(paths, bits): parameters, state tensors (step counters included), step-time options of the param_groups.
    With live (see live_tensors): every state tensor that has a working counterpart is read THROUGH the working tensor (cast to the
    registered tensor's dtype): equal to the plain snapshot iff what optimizer.state registers - what a checkpoint saves - holds the live values."""
    import torch
    paths, bits = [], []
    for gi, ps in enumerate(params):
        for pi, p in enumerate(ps):
            paths.append(f"param{gi}.{pi}")
            b = _bits(p)
            bits += [len(b)] + b
            ts = []
            walk(opt.state[p] if p in opt.state else {}, [], ts)
            for path, t in ts:
                paths.append(f"state{gi}.{pi}:" + json.dumps(path))
                if live is not None and (p, json.dumps(path)) in live:
                    w = live[(p, json.dumps(path))]
                    if isinstance(w, torch.Tensor):
                        t = w.detach().reshape(t.shape).to(t.dtype) if w.numel() == t.numel() else w
                b = _bits(t)
                bits += [len(b)] + b
    for gi, g in enumerate(opt.param_groups):
        paths.append(f"options{gi}")
        b = []
        for k in sorted(k for k in g if k != "params"):          # every option a checkpoint carries: numbers as bit patterns, the rest by repr
            v = g[k]
            vs = list(v) if isinstance(v, (tuple, list)) else [v]
            if all(isinstance(x, (bool, int, float)) for x in vs):
                b += [len(vs)] + [(_fbits(x) if isinstance(x, float) else int(x)) for x in vs]
            else:
                raw = repr(v).encode()
                b += [len(raw)] + [int.from_bytes(raw[i:i + 7], "big") for i in range(0, len(raw), 7)]
        bits += [len(b)] + b
    return paths, bits


ODD_NAMES = ["a", "", "Z z", "0", "a.b", "\u00e9", "a/b", "00", "A", "0.0"]       # no two groups can join to the same key (no name "b", "/a", ...)
UNUSED = "unused.param"                                                            # a model parameter the optimizer does not optimize


def names_of(params, style="default"):
    """Names whose sorted order differs from the order of the group's parameters (and mixes upper/lower case); style slash_dot:
    '/' and '.' inside names; style odd: empty name, numeric-looking names, blanks, non-ASCII."""
    out, c = [], 0
    for gi, ps in enumerate(params):
        n = len(ps)
        for pi, p in enumerate(ps):
            if style == "odd" and sum(len(q) for q in params) <= len(ODD_NAMES):
                nm = ODD_NAMES[c]
            elif style == "slash_dot":
                nm = f"L{gi}/blk.{n - 1 - pi}/{'w' if pi % 2 == 0 else 'W'}"
            else:
                nm = f"g{gi}.{'w' if pi % 2 == 0 else 'W'}{n - 1 - pi}"
            out.append((nm, p))
            c += 1
    return out


def decode_keys(d):
    res = []
    for k in d.keys():
        try:
            p = json.loads(k)
            ok = isinstance(p, list) and all((isinstance(x, str) or (isinstance(x, int) and not isinstance(x, bool))) for x in p) and json.dumps(p) == k
        except Exception:  # noqa
            p, ok = None, False
        res.append(p if ok else None)
    return res


def layout_of(opt, params):
    from distributed_shampoo.shampoo_types import BETAS, MOMENTUM, PRECONDITIONER_CONFIG, GRAFTING_CONFIG
    from distributed_shampoo.utils.shampoo_preconditioner_list import SHAMPOO
    pid, pids = {}, []
    for ps in params:
        row = []
        for p in ps:
            pid[p] = len(pid)
            row.append(pid[p])
        pids.append(row)
    lay = []
    for gi, g in enumerate(opt.param_groups):
        blocks, infos = optrun.group_handles(opt, gi)
        bl = []
        for blk, info in zip(blocks, infos):
            name = info.composable_block_ids[1]
            kf = opt.state[info.param][name][SHAMPOO]
            bl.append({"owner": pid[info.param], "name": name, "dims": list(blk.shape), "nf": len(kf.factor_matrices)})
        pc = g[PRECONDITIONER_CONFIG]
        gc = g[GRAFTING_CONFIG]
        lay.append({"soap": type(pc).__name__.startswith("EigenvalueCorrected"), "ada": gc is not None and type(gc).__name__ != "SGDGraftingConfig",
                    "ignored": list(pc.ignored_dims), "hasmom": g[MOMENTUM] != 0.0, "hasfilt": g[BETAS][0] != 0.0, "pids": pids[gi], "blocks": bl})
    return lay


def all_names(case, params):
    """key_to_param as a training script would pass it: the optimizer's parameters and one model parameter it does not optimize."""
    import torch
    return names_of(params, case.get("names", "default")) + [(UNUSED, torch.nn.Parameter(torch.zeros(2)))]


def do_load(case, sd, pk, k2p_order):
    """Fresh optimizer over copies of the parameter values pk, load sd; returns (outcome, opt, params)."""
    import torch
    ps = [[torch.nn.Parameter(t.detach().clone()) for t in g] for g in pk]
    opt = optrun.build_optimizer(case, ps, dtype=dtypes_of(case)[1])
    nm = all_names(case, ps)
    nm = [nm[i] for i in k2p_order]
    try:
        opt.load_distributed_state_dict(state_dict=copy.deepcopy(sd), key_to_param=iter(nm))
        out = "Ok"
    except Exception as e:  # noqa
        out = type(e).__name__
    return out, opt, ps


def cont(case, opt, params, start, T, live_out=None):
    snaps, err = [], None
    dummy = [dict() for _ in params]
    for si in range(start, T):
        st = case["steps"][si]
        optrun.apply_edits(opt, dummy, st)
        set_grads(case, params, st)
        try:
            opt.step()
        except Exception as e:  # noqa
            err = (si, f"{type(e).__name__}: {e}"[:200])
            break
        snaps.append(snapshot(opt, params))
        if live_out is not None:
            live_out.append(snapshot(opt, params, live_tensors(opt)))
    return snaps, err


def sd_keys(sd):
    return [(n, decode_keys(d)) for n, d in sd["state"].items()], list(sd["param_groups"].keys())


def impl_worker(args):
    case, mseed = args
    import random
    import torch
    logging.disable(logging.CRITICAL)
    torch.set_num_threads(1)
    rng = random.Random(mseed)
    try:
        pdt, fdt = dtypes_of(case)
        params = optrun.build_params(case, dtype=pdt)
        opt = optrun.build_optimizer(case, params, dtype=fdt)
    except Exception as e:  # noqa
        return {"error": f"ctor {type(e).__name__}: {e}"[:300]}
    T = len(case["steps"])
    # reference run: nothing is saved
    ref = [snapshot(opt, params)]
    livetr = [snapshot(opt, params, live_tensors(opt))]
    snaps, err = cont(case, opt, params, 0, T, livetr)
    ref += snaps
    if err is not None:
        T = err[0]                                   # the history is cut before the step that raises (C13's subject)
    layout = layout_of(opt, params)
    nparams = sum(len(g) for g in params)
    order_load = list(reversed(range(nparams + 1)))          # key_to_param is handed to load in another order (incl. the unused parameter)
    # second run: a checkpoint is taken at every stop point
    params_b = optrun.build_params(case, dtype=pdt)
    opt_b = optrun.build_optimizer(case, params_b, dtype=fdt)
    dummy = [dict() for _ in params_b]
    saverun, sds, pks, stopcls = [], [], [], {}
    for k in range(T + 1):
        saverun.append(snapshot(opt_b, params_b))
        nm = all_names(case, params_b)
        sds.append(copy.deepcopy(opt_b.distributed_state_dict(key_to_param=iter(nm))))
        for gi, g in enumerate(opt_b.param_groups):               # audit: where does this stop point lie in the group's schedule
            t = int(opt_b._per_group_state_lists[gi]["step"].item()) if "step" in opt_b._per_group_state_lists[gi] else 0
            f, st0 = g["precondition_frequency"], g["start_preconditioning_step"]
            cls = ("never_stepped" if t == 0 else "warmup_before_start" if t < st0 else "at_refresh" if (t == st0 or t % f == 0) else "between_refreshes")
            stopcls[cls] = stopcls.get(cls, 0) + 1
        pks.append([[p.detach().clone() for p in g] for g in params_b])
        if k < T:
            st = case["steps"][k]
            optrun.apply_edits(opt_b, dummy, st)
            set_grads(case, params_b, st)
            opt_b.step()
    # trajectories that must equal the reference run from step 0: the run that saves at every stop point, and the reference run read
    # through the optimizer's working tensors (registered state == live state, at every step)
    resumed, own_outcomes, diag = [(0, saverun), (0, livetr[:T + 1])], [], []
    nlive = len(live_tensors(opt))
    for k in range(T + 1):
        out, o2, p2 = do_load(case, sds[k], pks[k], order_load)
        own_outcomes.append(out)
        if out != "Ok":
            diag.append(f"k={k}: loading the own checkpoint raised {out}")
            continue
        tr = [snapshot(o2, p2)]
        sn, e2 = cont(case, o2, p2, k, T)
        tr += sn
        if e2 is not None:
            diag.append(f"k={k}: resumed run raised at step {e2[0]}: {e2[1]}")
        resumed.append((k, tr))
    # a resumed run is a run: stop it again later, save, load into another fresh optimizer, continue (chained resume)
    chained = None
    if T >= 2 and own_outcomes[0] == "Ok":
        k1 = rng.randrange(0, T - 1)
        k2 = rng.randrange(k1 + 1, T)
        out, o2, p2 = do_load(case, sds[k1], pks[k1], order_load)
        if out == "Ok":
            _, e2 = cont(case, o2, p2, k1, k2)
            if e2 is None:
                sd2 = copy.deepcopy(o2.distributed_state_dict(key_to_param=iter(all_names(case, p2))))
                out, o3, p3 = do_load(case, sd2, [[p.detach().clone() for p in g] for g in p2], order_load)
                own_outcomes.append(out)
                if out == "Ok":
                    tr = [snapshot(o3, p3)]
                    sn, e3 = cont(case, o3, p3, k2, T)
                    resumed.append((k2, tr + sn))
                    chained = (k1, k2)
                else:
                    diag.append(f"chained resume k1={k1} k2={k2}: loading raised {out}")
    # python-side diagnosis (the decision is C09_checkb's)
    for ti, (k, tr) in enumerate(resumed):
        label = {0: "saving run, ", 1: "registered state vs working tensors, "}.get(ti, "")
        for j, (pp, bb) in enumerate(tr):
            if k + j > T:
                break
            rp, rb = ref[k + j]
            if pp != rp:
                diag.append(f"{label}k={k} after {k + j} steps: tensor paths differ")
                break
            if bb != rb:
                # locate the first differing tensor
                pos, which = 0, None
                for name in pp:
                    n = bb[pos] + 1
                    if bb[pos:pos + n] != rb[pos:pos + n]:
                        which = name
                        break
                    pos += n
                diag.append(f"{label}k={k} after {k + j} steps: {which} differs")
                break
    own_state, own_groups = sd_keys(sds[T])
    keys_by_k_same = all(sd_keys(s) == (own_state, own_groups) for s in sds)
    # malformed stream on the last checkpoint
    kstar = T
    mal = []

    def attempt(kind, sd, extra=None):
        out, _, _ = do_load(case, sd, pks[kstar], order_load)
        st, gs = sd_keys(sd)
        mal.append({"kind": kind, "outcome": out, "state": st, "groups": gs, "what": extra})

    allkeys = [(n, k) for n, d in sds[kstar]["state"].items() for k in d.keys()]
    kinds = {"top": [], "inner": [], "step": []}
    for n, k in allkeys:
        p = json.loads(k)
        kinds["step" if p == ["step"] else ("inner" if len(p) > 1 and p[1] == "shampoo" else "top")].append((n, k))
    for kd in ("top", "inner", "step"):
        if kinds[kd]:
            n, k = rng.choice(kinds[kd])
            sd = copy.deepcopy(sds[kstar])
            del sd["state"][n][k]
            attempt("MDelKey", sd, {"deleted": [n, k], "key_kind": kd})
    blocks_of = {}
    for n, k in allkeys:
        pth = json.loads(k)
        if pth != ["step"]:
            blocks_of.setdefault((n, pth[0]), []).append(k)
    if blocks_of:                                       # every entry of one block
        (n, b), ks = rng.choice(sorted(blocks_of.items()))
        sd = copy.deepcopy(sds[kstar])
        for k in ks:
            del sd["state"][n][k]
        attempt("MDelKey", sd, {"deleted": [n, b], "key_kind": "block"})
    sd = copy.deepcopy(sds[kstar])
    first = next(iter(sd["state"]))
    sd["state"]["ghost.param"] = copy.deepcopy(sd["state"][first])
    attempt("MUnknownParam", sd, {"unknown": "ghost.param"})
    sd = copy.deepcopy(sds[kstar])                      # a parameter key_to_param knows but the optimizer holds no state for
    sd["state"][UNUSED] = copy.deepcopy(sd["state"][first])
    attempt("MUnknownParam", sd, {"stateless": UNUSED})
    sd = copy.deepcopy(sds[kstar])                      # one group too many
    sd["param_groups"]["extra/group"] = copy.deepcopy(next(iter(sd["param_groups"].values())))
    attempt("MGroupDrop", sd, {"added": "extra/group"})
    sd = copy.deepcopy(sds[kstar])
    gk = rng.choice(list(sd["param_groups"].keys()))
    del sd["param_groups"][gk]
    attempt("MGroupDrop", sd, {"dropped": gk})
    sd = copy.deepcopy(sds[kstar])
    gk = rng.choice(list(sd["param_groups"].keys()))
    sd["param_groups"] = {(k + "#" if k == gk else k): v for k, v in sd["param_groups"].items()}
    attempt("MGroupRename", sd, {"renamed": gk})
    # tie only: an extra flat key; a whole parameter entry removed
    sd = copy.deepcopy(sds[kstar])
    sd["state"][first][json.dumps(["block_0", "bogus", 7])] = torch.zeros(1)
    attempt("TExtraKey", sd)
    if len(sds[kstar]["state"]) > 1:
        sd = copy.deepcopy(sds[kstar])
        del sd["state"][rng.choice(list(sd["state"].keys()))]
        attempt("TParamRemoved", sd)
    nm = [n for n, _ in all_names(case, params)]
    audit = {"stop_points": stopcls, "chained": chained,
             "all_absent_steps": sum(1 for st in case["steps"][:T] if not any(any(r) for r in st["present"])),
             "group_never_stepped_while_other_did": sum(1 for gi in range(len(params)) if not any(any(st["present"][gi]) for st in case["steps"][:T])
                                                         and any(any(any(r) for r in st["present"]) for st in case["steps"][:T])),
             "param_never_has_gradient": sum(1 for gi, ps in enumerate(params) for pi in range(len(ps)) if not any(st["present"][gi][pi] for st in case["steps"][:T])),
             "scalar_or_single_element_params": sum(1 for g in case["groups"] for sh in g["shapes"] if math.prod(sh) == 1),
             "edits": {k: sum(1 for st in case["steps"][:T] for e in (st.get("edits") or []) if e and k in e) for k in
                       ("lr", "momentum", "wd", "freq", "dampening", "nesterov", "beta3")},
             "zero_present_steps": sum(1 for st in case["steps"][:T] if st.get("gzero"))}
    return {"T": T, "cut": err, "layout": layout, "names": nm, "order_load": order_load, "ref": [b for _, b in ref],
            "resumed": [(k, [b for _, b in tr]) for k, tr in resumed], "own_outcomes": own_outcomes, "own_state": own_state,
            "own_groups": own_groups, "keys_by_k_same": keys_by_k_same, "mal": mal, "diag": diag,
            "nlive": nlive, "dtypes": case.get("dtypes"), "audit": audit,
            "nontrivial_k": sum(1 for k in range(1, T) if ref[k][1] != ref[0][1] and ref[T][1] != ref[k][1]),
            "npaths": len(ref[0][0])}


# ------------------------------------------------------------------------------------------ Coq text

def cs(s):
    return '"' + s.replace('"', '""') + '"'


def ckey(p):
    if p is None:
        return "None"
    return "(Some [" + "; ".join((f"KInt ({x})%Z" if isinstance(x, int) else f"KStr {cs(x)}") for x in p) + "])"


def cname(n):
    if n.startswith("block_") and n[6:].isdigit():
        return f"(BN {int(n[6:])})"
    if n.startswith("rank_") and "-block_" in n:
        r, i = n[5:].split("-block_")
        return f"(RBN {int(r)} {int(i)})"
    raise ValueError(f"block name outside the model: {n}")


def cnats(l):
    return "[" + "; ".join(f"{int(x)}%nat" for x in l) + "]"


def cZs(l):
    """A list of 64-bit patterns as primitive-int literals: [number of words; the bit stream in 62-bit chunks] (Z numerals cost ~0.5 ms each
    to parse in coqc, primitive ints 0.02 ms); the case file converts them with Uint63.to_Z, the checker works on Z."""
    big = 0
    for x in l:
        big = (big << 64) | (x & ((1 << 64) - 1))
    out = [hex(len(l))]
    n = (64 * len(l) + 61) // 62
    for i in range(n):
        out.append(hex((big >> (62 * (n - 1 - i))) & ((1 << 62) - 1)))
    return "[" + ";".join(out) + "]"


def cstate(st):
    return "[" + "; ".join(f"({cs(n)}, [" + "; ".join(ckey(k) for k in ks) + "])" for n, ks in st) + "]"


def cstrs(l):
    return "[" + "; ".join(cs(x) for x in l) + "]"


def coutcome(o):
    return "OOk" if o == "Ok" else (f"(OErr {o})" if o in ERRS else "OOtherExc")


def coq_case(res, tag="") -> str:
    """Definitions (suffixed by tag) and one Eval for one case; prepend HEADER once per file."""
    lay = res["layout"]
    groups = []
    for g in lay:
        bl = "; ".join(f"(({b['owner']}%nat, {cname(b['name'])}), {cnats(b['dims'])})" for b in g["blocks"])
        groups.append(f"skel_group (zcfg {coq_bool(g['soap'])} {coq_bool(g['ada'])} {cnats(g['ignored'])}) {coq_bool(g['hasmom'])} "
                      f"{coq_bool(g['hasfilt'])} {cnats(g['pids'])} [{bl}]")
    names = res["names"]
    t = tag
    k2p = "[" + "; ".join(f"({cs(n)}, {i}%nat)" for i, n in enumerate(names)) + "]"
    k2pl = "[" + "; ".join(f"({cs(names[i])}, {i}%nat)" for i in res["order_load"]) + "]"
    own = "[" + "; ".join(coutcome(o) for o in res["own_outcomes"]) + "]"
    loads = [f"agree_load k2p_load{t} s{t} {cstate(m['state'])} {cstrs(m['groups'])} {coutcome(m['outcome'])}" for m in res["mal"]]
    malobs = [f"(MOwn, {coutcome(o)})" for o in res["own_outcomes"]]
    malobs += [f"({m['kind']}, {coutcome(m['outcome'])})" for m in res["mal"] if m["kind"].startswith("M")]
    resumed = "[" + ";\n  ".join(f"({k}%nat, [" + "; ".join(cZs(b) for b in tr) + "])" for k, tr in res["resumed"]) + "]"
    return (f"Definition s{t} : opt_state (F:=Z) := [{'; '.join(groups)}].\n"
            f"Definition k2p{t} := {k2p}.\nDefinition k2p_load{t} := {k2pl}.\n"
            f"Definition own_state{t} : list (string * list xkey) := {cstate(res['own_state'])}.\n"
            f"Definition own_groups{t} := {cstrs(res['own_groups'])}.\n"
            f"Definition unint_i{t} := ([{'; '.join(cZs(b) for b in res['ref'][:res['T'] + 1])}])%uint63.\n"
            f"Definition resumed_i{t} := ({resumed})%uint63.\n"
            f"Definition obs{t} := mkObs (toZ unint_i{t}) (map (fun kr => (fst kr, toZ (snd kr))) resumed_i{t}) (map fst own_state{t}) "
            f"(map snd own_state{t}) own_groups{t} [{'; '.join(malobs)}].\n"
            f"Eval vm_compute in show_bools (agree_save k2p{t} s{t} own_state{t} own_groups{t} :: agree_paths s{t} own_state{t} :: C09_checkb obs{t} :: "
            f"(let m := outcome_of (x_load k2p_load{t} s{t} (x_ckpt own_state{t} own_groups{t})) in map (outcome_eqb m) {own}) ++ "
            f"[{'; '.join(loads)}]).\n")


def coq_files(results, limit=350_000):
    """Several cases per file (the imports cost 0.6 s per coqc run); returns (files, index: case -> (file, position))."""
    files, index, cur, size = {}, {}, [], 0
    for i, r in enumerate(results):
        if "error" in r:
            continue
        txt = coq_case(r, f"_{i}")
        if cur and size + len(txt) > limit:
            files[f"c09_{len(files):04d}"] = HEADER + "".join(cur)
            cur, size = [], 0
        index[i] = (f"c09_{len(files):04d}", len(cur))
        cur.append(txt)
        size += len(txt)
    if cur:
        files[f"c09_{len(files):04d}"] = HEADER + "".join(cur)
    return files, index


# ------------------------------------------------------------------------------------------ verdicts

def classify(case, res, item):
    """Stable signatures of the known findings, from the failing input and the kind of failure."""
    if item[0] == "own" and item[1] == "KeyError" and has_leafless(res["layout"]):
        return "C09:own-checkpoint-keyerror-leafless-block"
    if item[0] == "mal" and item[1]["outcome"] == "KeyError" and res["own_outcomes"][res["T"]] == "KeyError" and has_leafless(res["layout"]):
        return "C09:own-checkpoint-keyerror-leafless-block"     # the unmodified checkpoint does not load either: same defect
    if item[0] == "mal" and item[1]["kind"] == "MDelKey" and item[1]["outcome"] == "Ok" and item[1]["what"]["key_kind"] == "inner":
        return "C09:missing-inner-entry-accepted"
    return None


EXPECTED = {"MDelKey": "KeyError", "MUnknownParam": "KeyError", "MGroupDrop": "ValueError", "MGroupRename": "ValueError"}


def run(ck: Check) -> None:
    ck.coq_props()
    gen_targets.run(ck)          # translator tie: Gallina regenerated from the source + coq/gen/EquivC09.v
    common.assert_repo_imports()
    thorough = ck.tier == "thorough"
    ncases = 420 if thorough else 105
    cases = []
    corpus = common.ROOT / "corpus" / "C09"
    if corpus.exists():
        for f in sorted(corpus.glob("*.json")):
            cases.append(json.loads(f.read_text())["case"])
    ncorpus = len(cases)
    cases += [gen_case(ck.rng, i, thorough) for i in range(ncases)]
    jobs = [(c, ck.rng.randrange(1 << 30)) for c in cases]
    with mp.get_context("fork").Pool(16) as pool:
        results = pool.map(impl_worker, jobs, chunksize=1)
    files, index = coq_files(results)
    out = ck.eval_coq(files, timeout=1200)

    hist = {"dtypes(param,factors)": {}, "kind_x_dtypes": {}, "live_tensors_checked": 0, "kind": {}, "graft": {}, "groups": {}, "ignored": {}, "max_dim": {}, "momentum": {}, "beta1": {}, "T": {}, "blocks_per_param": {},
            "blocks_without_kronecker_factor": 0, "cases_with_such_blocks": 0, "edits": 0, "absent_gradients": 0, "histories_cut_by_step_error": 0,
            "malformed": {}, "own_loads": 0, "checkpoints_with_same_keys_at_every_k": 0}
    evaluations = nontrivial = ctor_err = 0
    qa = {}

    def q(k, n=1):
        if n:
            qa[k] = qa.get(k, 0) + int(n)
    bad_prop, bad_tie = [], []
    for i, (case, res) in enumerate(zip(cases, results)):
        if "error" in res:
            ctor_err += 1
            continue
        c0 = case["groups"][0]["cfg"]

        def bump(k, v):
            hist[k][str(v)] = hist[k].get(str(v), 0) + 1
        bump("kind", f"{c0['kind']}/{c0['amort']}")
        bump("dtypes(param,factors)", "/".join(case.get("dtypes", ["float64", "float64"])))
        bump("kind_x_dtypes", f"{c0['kind']}/{c0['amort']} " + "/".join(case.get("dtypes", ["float64", "float64"])))
        hist["live_tensors_checked"] += res["nlive"] * (res["T"] + 1)
        # ---- quantifier audit: measured number of generated cases (or stop points / loads) per input class
        a = res["audit"]
        q("dtype pairing " + "/".join(case.get("dtypes", ["float64", "float64"])) + f" x {c0['kind']}/{c0['amort']}")
        q("stop point k=0 (never-stepped optimizer)")
        q("stop point k=T")
        q("stop points 0<k<T", max(0, res["T"] - 1))
        for k_, n_ in a["stop_points"].items():
            q(f"(stop point, group) {k_}", n_)
        q("chained resume (resume, stop again, save, load, continue)", a["chained"] is not None)
        q("grafting " + str(c0["graft"]))
        q("momentum>0", c0["momentum"] != 0.0)
        q("momentum>0 with nesterov", c0["momentum"] != 0.0 and c0.get("nesterov", False))
        q("momentum>0 with dampening>0", c0["momentum"] != 0.0 and c0.get("dampening", 0.0) != 0.0)
        q("filtering beta1>0", c0["betas"][0] != 0.0)
        q("filtering beta3!=beta1", c0["betas"][0] != 0.0 and c0.get("beta3", -1.0) not in (-1.0, c0["betas"][0]))
        q("weight decay>0 coupled", c0.get("wd", 0.0) != 0.0 and not c0.get("decoupled", True))
        q("weight decay>0 decoupled", c0.get("wd", 0.0) != 0.0 and c0.get("decoupled", True))
        q("two param groups", len(case["groups"]) == 2)
        q("two param groups with overridden options", len(case["groups"]) == 2 and bool(case["groups"][1].get("overrides")))
        q("twin param groups (identical hyperparameters and shapes)", case.get("variant") == "twin_groups")
        q("two equal-shaped parameters with alternating gradients", case.get("variant") == "alternating_equal_shapes")
        q("blocked parameter (>1 block)", any(v > 1 for g in res["layout"] for v in [sum(1 for b in g["blocks"] if b["owner"] == o) for o in g["pids"]]))
        q("block without any Kronecker factor", has_leafless(res["layout"]))
        q("ignored_dims=" + str(c0["ignored"]))
        q("inv_root_override != 0", c0.get("override", 0) != 0)
        q("order-0 / single-element parameter", a["scalar_or_single_element_params"] > 0)
        q("step with every gradient absent (no-op step)", a["all_absent_steps"] > 0)
        q("group that never steps while another does", a["group_never_stepped_while_other_did"] > 0)
        q("parameter that never has a gradient", a["param_never_has_gradient"] > 0)
        q("present gradient exactly zero (one parameter)", case.get("gmode") == "zero_present" and a["zero_present_steps"] > 0)
        q("present gradients exactly zero (every parameter, one step)", case.get("gmode") == "zero_present_all_once" and a["zero_present_steps"] > 0)
        q("tiny gradients (x 2^-17)", case.get("gmode") == "tiny")
        q("gradients with non-default memory layout", case.get("gmode") == "noncontiguous")
        for k_, n_ in a["edits"].items():
            q(f"option edit between steps: {k_}", n_)
        q("parameter names: " + case.get("names", "default"))
        q("key_to_param with a parameter the optimizer does not hold + permuted order on load")
        q("history cut by a raising step", res["cut"] is not None)
        for m in res["mal"]:
            q("malformed: " + m["kind"] + (" " + (m["what"].get("key_kind") or next(iter(m["what"]))) if m.get("what") else ""))
        bump("graft", c0["graft"])
        bump("groups", len(case["groups"]))
        bump("ignored", c0["ignored"])
        bump("max_dim", c0["max_dim"])
        bump("momentum", c0["momentum"])
        bump("beta1", c0["betas"][0])
        bump("T", res["T"])
        for g in res["layout"]:
            per = {}
            for b in g["blocks"]:
                per[b["owner"]] = per.get(b["owner"], 0) + 1
                hist["blocks_without_kronecker_factor"] += b["nf"] == 0
            for v in per.values():
                bump("blocks_per_param", v)
        hist["cases_with_such_blocks"] += has_leafless(res["layout"])
        hist["edits"] += sum(1 for st in case["steps"][:res["T"]] if st.get("edits"))
        hist["absent_gradients"] += sum(1 for st in case["steps"][:res["T"]] for row in st["present"] for x in row if not x)
        hist["histories_cut_by_step_error"] += res["cut"] is not None
        hist["own_loads"] += len(res["own_outcomes"])
        hist["checkpoints_with_same_keys_at_every_k"] += bool(res["keys_by_k_same"])
        for m in res["mal"]:
            key = f"{m['kind']}->{m['outcome']}"
            hist["malformed"][key] = hist["malformed"].get(key, 0) + 1
        evaluations += len(res["own_outcomes"]) + len(res["mal"])
        nontrivial += res["nontrivial_k"]
        v = out[index[i][0]][index[i][1]]
        assert len(v) == 3 + len(res["own_outcomes"]) + len(res["mal"]), (i, v)
        if v[2] != "T":
            bad_prop.append((i, v))
        elif "F" in v or not res["keys_by_k_same"]:
            bad_tie.append((i, v))

    seen = set()
    for i, v in bad_prop:
        if len(seen) >= 4:
            break
        case, res = cases[i], results[i]
        items = [("own", o, k) for k, o in enumerate(res["own_outcomes"]) if o != "Ok"]
        items += [("mal", m) for m in res["mal"] if m["kind"] in EXPECTED and m["outcome"] != EXPECTED[m["kind"]]]
        dupl = [n for n, ks in res["own_state"] if len({json.dumps(k) for k in ks}) != len(ks)]
        if items:
            for it in items:
                sg = classify(case, res, it)
                sig0 = sg if sg is not None else (it[0], it[1] if it[0] == "own" else (it[1]["kind"], it[1]["outcome"]))
                if sig0 in seen:
                    continue
                seen.add(sig0)
                what = (f"loading the optimizer's own distributed state dict (stop point k={it[2]}) raised {it[1]}" if it[0] == "own" else
                        f"load_distributed_state_dict on a checkpoint with {it[1]['kind']} {it[1]['what']} ended with {it[1]['outcome']} instead of {EXPECTED[it[1]['kind']]}")
                ck.report(classify(case, res, it), f"C09 fails on the implementation: {what}; C09_checkb = false",
                          {"kind": "property-fails", "case": case, "layout": res["layout"], "observed": it[1] if it[0] == "own" else it[1]["outcome"],
                           "detail": None if it[0] == "own" else it[1]["what"], "diag": res["diag"][:5], "predicate": "CheckpointChecker.C09_checkb"})
        elif "diverges" not in seen:
            seen.add("diverges")
            ck.report(None, "C09 fails on the implementation: " + ("; ".join(res["diag"][:3]) or (f"duplicate flat keys under {dupl}" if dupl else "C09_checkb = false")),
                      {"kind": "property-fails", "case": case, "layout": res["layout"], "diag": res["diag"][:10], "predicate": "CheckpointChecker.C09_checkb (resumed trajectory == uninterrupted trajectory bit for bit, unique keys, expected exception classes)"})
    if bad_tie and not bad_prop:
        i, v = bad_tie[0]
        comp = ["save_ckpt key lists (agree_save)", "predicted paths ppaths (agree_paths)", "C09_checkb"]
        res = results[i]
        comp += [f"load outcome own k={k}" for k in range(len(res["own_outcomes"]))] + [f"load outcome {m['kind']}={m['outcome']}" for m in res["mal"]]
        ck.report(None, f"model/implementation correspondence broken on {len(bad_tie)} cases (first: {[comp[j] for j, ch in enumerate(v) if ch != 'T']}"
                        f"{'' if res['keys_by_k_same'] else '; key lists change with the stop point'}) while every observed run passes C09_checkb: "
                        "C09_load_succeeds_on_own_save / C09_saved_keys_unique / C09_load_rejects_* no longer transfer to the implementation",
                  {"kind": "correspondence", "case": cases[i], "layout": res["layout"], "own_state": res["own_state"], "own_groups": res["own_groups"],
                   "mal": [{k: m[k] for k in ("kind", "outcome", "what")} for m in res["mal"]], "verdicts": v}, no_failing_input=True)

    good = [i for i, r in enumerate(results) if "error" not in r]
    ck.coverage.update({
        "evaluations": evaluations,
        "distinct_nontrivial": nontrivial,
        "rule": "case = configuration ((parameter dtype, preconditioner_dtype) in f64/f64, f32/f64, f64/f32, bf16/f32, f32/f32 x Shampoo eigen / SOAP eigh / SOAP QR x grafting None/SGD/Adagrad/RMSprop/Adam x momentum x beta1 x ignored dims "
                "incl. all dims and [0] on 1-D blocks x max_preconditioner_dim 1/2/3/1024 x 1-2 param groups with overrides) x history of T steps with "
                "absent gradients and lr/momentum/weight-decay edits; evaluation = one load_distributed_state_dict into a fresh optimizer (own checkpoint "
                "at every stop point k = 0..T followed by the run to T compared bit for bit after every step, or one malformed checkpoint) decided inside "
                "coqc; besides, per case, two trajectories that must equal the reference run bit for bit from step 0: the run that saves at every stop point, and the "
                "reference run with every state tensor read through the tensor the optimizer actually works on (registered/saved state == live state at every step);  non-trivial = a stop point 0 < k < T whose state differs from the initial one and from the final one",
        "samples": [{"cfg": cases[i]["groups"][0]["cfg"], "shapes": [g["shapes"] for g in cases[i]["groups"]], "T": results[i]["T"],
                     "flat_keys_first_param": [json.dumps(k) for k in results[i]["own_state"][0][1]][:8]} for i in good[:3]],
        "distribution": hist, "cases": len(cases), "corpus_cases": ncorpus, "constructor_errors": ctor_err,
        "cases_failing_the_property": len(bad_prop), "cases_with_broken_tie": len(bad_tie),
        "tensors_per_snapshot_max": max([results[i]["npaths"] for i in good] or [0]), "exhaustive": False,
    })
    ck.coverage["quantifier_audit"] = dict(sorted(qa.items()))
    ck.coverage["not_exercised"] = {
        "DDP / DTensor state layouts (rank_r-block_i names, DTensor leaves)": "covered by the theorems (both naming schemes) and by C06's simulator for the step; a DTensor checkpoint "
            "needs torch.distributed.checkpoint and real process groups - not available to this harness",
        "bfloat16 / float16 FACTORS (preconditioner_dtype)": "platform limit: no bf16 QR kernel (known finding F11), eigh retries in float64; parameter dtypes bf16/f16/f32/f64 are exercised",
        "parameter names that make two group keys collide through '/' ({'a','b/c'} vs {'a/b','c'})": "genuine discrepancy C09:group-key-collision-slash-in-names reported to the coordinator "
            "(own checkpoint raises ValueError: count mismatch); C09_group_keys_unique assumes no '/'; names WITH '/' that do not collide are exercised (slash_dot, odd)",
        "faulty continuations (failure counters)": "not part of the saved state; the property's quantifier has no fault axis (C13)",
        "checkpoints whose tensors have another shape / dtype": "outside the property (copy_ raises RuntimeError / casts)",
        "non-default flags of load/save (save_param_groups=False, enable_missing_key_check=False)": "the property is about the default protocol",
        "torch.compile'd step (PT2)": "C18",
        "values overflowing the storage dtype (inf/nan state)": "histories are cut at a raising step; NaN/inf bit patterns would still be compared exactly, but the generator does not aim at them",
    }
    ck.assumptions += ["serial Distributor layout, CPU, one thread; dtype pairings as listed under distribution (no bfloat16 factors: known finding F11)",
                       "histories are cut before a step that raises (failure tolerance / non-finite factors are C13's subject)",
                       "fault-free continuations: failure counters are not part of the saved state"]
    ck.notes.append("a checkpoint from which a whole parameter entry is removed loads without error (model and implementation agree): the property speaks "
                    "about entries missing from a SAVED parameter's state only")
    ck.gen_equiv_verdict()


def replay(obj) -> bool:
    res = impl_worker((obj["case"], 0))
    print({k: res.get(k) for k in ("T", "own_outcomes", "diag", "error")})
    for m in res.get("mal", []):
        print(m["kind"], m["outcome"], m["what"])
    return bool(res.get("diag")) or any(o != "Ok" for o in res.get("own_outcomes", []))
